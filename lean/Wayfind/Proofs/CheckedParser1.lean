import Wayfind.Model.CheckedParser

/-! The checked transcription of the parser never reports a panic: every index, slice and subtraction of
`src/parser.rs` is in range, for every input. Part 1: the group expander. -/

def NoPanic {α} (r : Except CErr α) : Prop := ∀ s, r ≠ .error (.panic s)

theorem NoPanic.ok {α} (a : α) : NoPanic (.ok a : Except CErr α) := fun _ h => by cases h
theorem NoPanic.terr {α} (e : TErr) : NoPanic (.error (.terr e) : Except CErr α) := fun _ h => by cases h
theorem NoPanic.fuel {α} : NoPanic (.error .fuel : Except CErr α) := fun _ h => by cases h

/-- an error passed on from a computation that never panics is not a panic -/
theorem NoPanic.pass {α β} {x : Except CErr α} (hx : NoPanic x) {e : CErr} (h : x = .error e) :
    NoPanic (.error e : Except CErr β) := by
  intro s hs
  injection hs with hs
  subst hs
  exact hx s h

theorem getB_ok {input : Bytes} {i : Nat} (h : i < input.length) (site : String) : getB input i site = .ok input[i] := by
  simp [getB, List.getElem?_eq_getElem h]

theorem sliceC_ok {input : Bytes} {a b : Nat} (h1 : a ≤ b) (h2 : b ≤ input.length) (site : String) :
    sliceC input a b site = .ok ((input.drop a).take (b - a)) := by simp [sliceC, h1, h2]

theorem subC_ok {a b : Nat} (h : b ≤ a) (site : String) : subC a b site = .ok (a - b) := by simp [subC, h]

/-- loop invariant of `expand_optional_groups`: the range ends inside the input, the current group starts at or before
the cursor, and once a parenthesis is open the group start is past that parenthesis (so `group ≥ 1`) -/
def XInv (input : Bytes) (end_ cursor group depth : Nat) : Prop :=
  end_ ≤ input.length ∧ group ≤ cursor ∧ (0 < depth → 0 < group)

theorem expand_np (input : Bytes) : ∀ fuel,
    (∀ start end_, end_ ≤ input.length → NoPanic (expandC input fuel start end_)) ∧
    (∀ start end_ cursor group depth result, XInv input end_ cursor group depth →
      NoPanic (expandLoopC input fuel start end_ cursor group depth result)) := by
  intro fuel
  induction fuel with
  | zero => exact ⟨fun _ _ _ => by simp [expandC]; exact NoPanic.fuel, fun _ _ _ _ _ _ _ => by simp [expandLoopC]; exact NoPanic.fuel⟩
  | succ fuel ih =>
    obtain ⟨ihC, ihL⟩ := ih
    refine ⟨?_, ?_⟩
    · intro start end_ he
      simp only [expandC]
      exact ihL start end_ start start 0 [[]] ⟨he, Nat.le_refl _, fun h => absurd h (Nat.lt_irrefl 0)⟩
    · intro start end_ cursor group depth result ⟨he, hg, hd⟩
      simp only [expandLoopC]
      split
      · rename_i hlt
        have hcl : cursor < input.length := Nat.lt_of_lt_of_le hlt he
        rw [getB_ok hcl]
        simp only
        split
        · exact ihL _ _ _ _ _ _ ⟨he, by omega, hd⟩
        · split
          · split
            · rw [sliceC_ok hg (by omega)]
              exact ihL _ _ _ _ _ _ ⟨he, Nat.le_refl _, fun _ => by omega⟩
            · exact ihL _ _ _ _ _ _ ⟨he, by omega, fun _ => hd (by omega)⟩
          · split
            · split
              · exact NoPanic.terr _
              · split
                · split
                  · rename_i hd0 _ hcg
                    have : 0 < group := hd (by omega)
                    rw [subC_ok (by omega)]
                    exact NoPanic.terr _
                  · cases hx : expandC input fuel group cursor with
                    | error e => exact NoPanic.pass (ihC group cursor (by omega)) hx
                    | ok inner => exact ihL _ _ _ _ _ _ ⟨he, Nat.le_refl _, fun h => absurd h (Nat.lt_irrefl 0)⟩
                · exact ihL _ _ _ _ _ _ ⟨he, by omega, fun _ => hd (by omega)⟩
            · exact ihL _ _ _ _ _ _ ⟨he, by omega, hd⟩
      · split
        · rename_i hd0
          have : 0 < group := hd (by omega)
          rw [subC_ok (by omega)]
          exact NoPanic.terr _
        · split
          · rename_i hge
            rw [sliceC_ok (by omega) he]
            exact NoPanic.ok _
          · exact NoPanic.ok _

theorem expandC_never_panics (input : Bytes) (fuel start end_ : Nat) (h : end_ ≤ input.length) :
    NoPanic (expandC input fuel start end_) := (expand_np input fuel).1 start end_ h
