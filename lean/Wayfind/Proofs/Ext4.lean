import Wayfind.Proofs.Ext3

def Rel (env : Env) (rs1 rs2 : List Route) (path : Bytes) : Prop :=
  (∀ P i, Mem rs1 P i → Mem rs2 P i) ∧ (∀ P i, Mem rs2 P i → Mem rs1 P i ∨ ¬ FitsN env P path)

theorem Mem_statsNE {rs : List Route} (hS : SNE rs) {P : List Part} {i : Info} (h : Mem rs P i) : statsNE P := by
  obtain ⟨r, hr, hn, _⟩ := h
  rw [← hn]; exact norm_statsNE _ (hS r hr)

theorem option_ext {α} {a b : Option α} (h : ∀ i, a = some i ↔ b = some i) : a = b := by
  cases a with
  | none => cases b with
    | none => rfl
    | some j => exact absurd ((h j).2 rfl) (by simp)
  | some i => exact ((h i).1 rfl).symm

theorem findEmpty_iff (rs : List Route) (hF : Fun rs) (i : Info) :
    (rs.find? (·.parts.isEmpty)).map (·.info) = some i ↔ Mem rs [] i := by
  constructor
  · intro h
    simp only [Option.map_eq_some_iff] at h
    obtain ⟨r, hr, hi⟩ := h
    have hp : r.parts = [] := by simpa using List.find?_some hr
    exact ⟨r, List.mem_of_find?_eq_some hr, by rw [hp]; rfl, hi⟩
  · rintro ⟨r, hr, hn, hi⟩
    have hp : r.parts = [] := (norm_eq_nil _).1 hn
    have hs : (rs.find? (·.parts.isEmpty)).isSome = true := by
      rw [List.find?_isSome]; exact ⟨r, hr, by simp [hp]⟩
    cases hf : rs.find? (·.parts.isEmpty) with
    | none => rw [hf] at hs; cases hs
    | some r2 =>
      have hp2 : r2.parts = [] := by simpa using List.find?_some hf
      have : r2.info = i := hF [] r2.info i ⟨r2, List.mem_of_find?_eq_some hf, by rw [hp2]; rfl, rfl⟩ ⟨r, hr, hn, hi⟩
      simp [this]

theorem Fun_stripByte (b : Byte) (rs : List Route) (hS : SNE rs) (hF : Fun rs) : Fun (rs.filterMap (stripByte b)) := by
  intro X i j h1 h2
  have hX := Mem_statsNE (SNE_stripByte b rs hS) h1
  exact hF _ i j ((Mem_stripByte b rs hS X hX i).1 h1) ((Mem_stripByte b rs hS X hX j).1 h2)

theorem Fun_stripPar (k last l) (rs : List Route) (hF : Fun rs) : Fun (rs.filterMap (stripPar k last l)) := by
  intro X i j h1 h2
  exact hF _ i j ((Mem_stripPar k last l rs X i).1 h1).1 ((Mem_stripPar k last l rs X j).1 h2).1

theorem Rel_stripByte (env : Env) (b : Byte) (tl : Bytes) (rs1 rs2 : List Route) (h1 : SNE rs1) (h2 : SNE rs2)
    (h : Rel env rs1 rs2 (b :: tl)) : Rel env (rs1.filterMap (stripByte b)) (rs2.filterMap (stripByte b)) tl := by
  constructor
  · intro X i hm
    have hX := Mem_statsNE (SNE_stripByte b rs1 h1) hm
    exact (Mem_stripByte b rs2 h2 X hX i).2 (h.1 _ i ((Mem_stripByte b rs1 h1 X hX i).1 hm))
  · intro X i hm
    have hX := Mem_statsNE (SNE_stripByte b rs2 h2) hm
    rcases h.2 _ i ((Mem_stripByte b rs2 h2 X hX i).1 hm) with hm1 | hnf
    · exact Or.inl ((Mem_stripByte b rs1 h1 X hX i).2 hm1)
    · exact Or.inr (fun hf => hnf ((FitsN_pushByte env b X tl hX).2 hf))

/-- after an acceptable capture of parameter `par k l`, the remaining routes are related at the remaining path -/
theorem Rel_stripPar (env : Env) (k : PKind) (l : Label) (path : Bytes) (c : Nat) (rs1 rs2 : List Route)
    (hc : c ∈ candsInline (wildK k) path)
    (hok : candOk env (if consK k then some l.cons else none) (path.take c) = true)
    (h : Rel env rs1 rs2 path) :
    Rel env (rs1.filterMap (stripPar k false l)) (rs2.filterMap (stripPar k false l)) (path.drop c) := by
  constructor
  · intro X i hm
    obtain ⟨hm1, hcl⟩ := (Mem_stripPar k false l rs1 X i).1 hm
    exact (Mem_stripPar k false l rs2 X i).2 ⟨h.1 _ i hm1, hcl⟩
  · intro X i hm
    obtain ⟨hm2, hcl⟩ := (Mem_stripPar k false l rs2 X i).1 hm
    rcases h.2 _ i hm2 with hm1 | hnf
    · exact Or.inl ((Mem_stripPar k false l rs1 X i).2 ⟨hm1, hcl⟩)
    · exact Or.inr (fun hf => hnf (FitsN_par env k l X path c hc hok hf))

theorem tryCands_none_ok (env : Env) (cons : Option Bytes) (name path : Bytes) (ps : Params)
    (k : Bytes → Params → Res) : ∀ (cs : List Nat),
    (∀ c ∈ cs, candOk env cons (path.take c) = true → ∀ q, k (path.drop c) q = none) →
    tryCands env cons name path ps k cs none = none
  | [], _ => rfl
  | c :: cs, h => by
    rw [tryCands_cons]
    have : stepCand env cons name path ps k c none = none := by
      unfold stepCand
      by_cases hok : candOk env cons (path.take c) = true
      · simp only [hok, ite_true]; rw [h c (by simp) hok]
      · simp [hok]
    rw [this]
    exact tryCands_none_ok env cons name path ps k cs (fun c' hc' => h c' (by simp [hc']))
