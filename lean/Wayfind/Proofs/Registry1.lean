import Wayfind.Proofs.Reachable
import Wayfind.Proofs.FindOpt
import Wayfind.Proofs.FindDelete

/-! the tree as a finite map, lifted to sequences of inserts and deletes -/

theorem allData_of_leaves : ∀ (ks : Kids), Kids.leaves ks → Kids.allData ks
  | .nil, _ => trivial
  | .cons l n r, h => by
    obtain ⟨⟨i, hi⟩, hr⟩ := h
    exact ⟨by rw [(routes_leaf hi).2]; simp, allData_of_leaves r hr⟩

mutual
theorem Node.SOK_of_Shp : ∀ (n : Node), Node.Shp n → Node.SOK n
  | .mk x s dc d wc w ec e ds ws dirty, h => by
    simp only [Node.Shp] at h
    obtain ⟨h1, h2, _, _, h5, h6, _, _, _, _, _, _, _, _, _, _, h17, h18, h19, h20, h21⟩ := h
    exact ⟨Kids.SOKs_of_Shpk s h1 h2 h17, Kids.SOKp_of_Shpk dc h18, Kids.SOKp_of_Shpk d h19, Kids.SOKp_of_Shpk wc h20,
      Kids.SOKp_of_Shpk w h21, allData_of_leaves ec h5, allData_of_leaves e h6⟩
theorem Kids.SOKs_of_Shpk : ∀ (ks : Kids), Kids.All (fun l _ => l.pre ≠ []) ks → Kids.distinctHeads ks → Kids.Shpk ks → Kids.SOKs ks
  | .nil, _, _, _ => trivial
  | .cons l n r, h1, h2, h3 => by
    simp only [Kids.All] at h1
    simp only [Kids.distinctHeads] at h2
    simp only [Kids.Shpk] at h3
    exact ⟨h1.1, h2.1, Node.SOK_of_Shp n h3.1, Kids.SOKs_of_Shpk r h1.2 h2.2 h3.2.2⟩
theorem Kids.SOKp_of_Shpk : ∀ (ks : Kids), Kids.Shpk ks → Kids.SOKp ks
  | .nil, _ => trivial
  | .cons l n r, h => by
    simp only [Kids.Shpk] at h
    exact ⟨Node.SOK_of_Shp n h.1, Kids.SOKp_of_Shpk r h.2.2⟩
end

/-- lookup in an association list of inserted routes -/
def lookupIns (xs : List (List Part × Info)) (Q : List Part) : Option Info :=
  (xs.find? (fun x => x.1 == Q)).map (·.2)

theorem lookupIns_none_of_not_mem (xs : List (List Part × Info)) (Q : List Part) (h : Q ∉ xs.map (·.1)) :
    lookupIns xs Q = none := by
  unfold lookupIns
  rw [List.find?_eq_none.2]
  · rfl
  · intro x hx hq
    exact h (List.mem_map.2 ⟨x, hx, by simpa using hq⟩)

/-- find after inserting a sequence of fresh, pairwise different, well-formed routes -/
theorem find_foldl_insert : ∀ (xs : List (List Part × Info)) (n : Node), Node.Shp n →
    (∀ x ∈ xs, wfParts x.1 = true) → (xs.map (·.1)).Nodup → (∀ x ∈ xs, Node.find n x.1 = none) →
    Node.Shp (xs.foldl (fun t x => Node.insert t x.1 x.2) n) ∧
    ∀ Q, wfParts Q = true →
      Node.find (xs.foldl (fun t x => Node.insert t x.1 x.2) n) Q = (match lookupIns xs Q with | some i => some i | none => Node.find n Q)
  | [], n, hS, _, _, _ => ⟨hS, fun Q _ => rfl⟩
  | x :: xs, n, hS, hwf, hnd, hfresh => by
    simp only [List.foldl_cons]
    have hx := hwf x (by simp)
    have hS1 := (Node.insert_Shp n x.1 x.2 hS hx).1
    have hfi : ∀ Q, wfParts Q = true → Node.find (Node.insert n x.1 x.2) Q = if Q = x.1 then some x.2 else Node.find n Q :=
      fun Q hQ => Node.find_insert n x.1 Q x.2 (Node.SOK_of_Shp n hS) (wfParts_altOK _ hx) (wfParts_altOK _ hQ) (hfresh x (by simp))
    simp only [List.map_cons, List.nodup_cons] at hnd
    have hfresh' : ∀ y ∈ xs, Node.find (Node.insert n x.1 x.2) y.1 = none := by
      intro y hy
      rw [hfi y.1 (hwf y (by simp [hy]))]
      have : y.1 ≠ x.1 := by
        intro h; exact hnd.1 (h ▸ List.mem_map.2 ⟨y, hy, rfl⟩)
      rw [if_neg this]; exact hfresh y (by simp [hy])
    obtain ⟨hS2, hfind⟩ := find_foldl_insert xs _ hS1 (fun y hy => hwf y (by simp [hy])) hnd.2 hfresh'
    refine ⟨hS2, ?_⟩
    intro Q hQ
    rw [hfind Q hQ, hfi Q hQ]
    by_cases hq : x.1 = Q
    · subst hq
      rw [lookupIns_none_of_not_mem xs x.1 hnd.1]
      simp [lookupIns]
    · have hq' : ¬ Q = x.1 := fun h => hq h.symm
      have : lookupIns (x :: xs) Q = lookupIns xs Q := by
        unfold lookupIns
        rw [List.find?_cons_of_neg]
        simpa using hq
      rw [this, if_neg hq']

/-- find after deleting a sequence of well-formed routes -/
theorem find_foldl_delete : ∀ (Ps : List (List Part)) (n : Node), Node.Shp n → (∀ P ∈ Ps, wfParts P = true) →
    Node.Shp (Ps.foldl (fun t x => (Node.delete false t x).1) n) ∧
    ∀ Q, wfParts Q = true →
      Node.find (Ps.foldl (fun t x => (Node.delete false t x).1) n) Q = if Q ∈ Ps then none else Node.find n Q
  | [], n, hS, _ => ⟨hS, fun Q _ => by simp⟩
  | P :: Ps, n, hS, hwf => by
    simp only [List.foldl_cons]
    have hP := hwf P (by simp)
    have hS1 := Node.delete_Shp n false P hS hP
    obtain ⟨hS2, hfind⟩ := find_foldl_delete Ps _ hS1 (fun y hy => hwf y (by simp [hy]))
    refine ⟨hS2, ?_⟩
    intro Q hQ
    rw [hfind Q hQ, (Node.find_delete n false P Q hS hP hQ).1]
    by_cases h1 : Q ∈ Ps
    · simp [h1]
    · by_cases h2 : Q = P
      · simp [h2]
      · simp [h1, h2]
