import Wayfind.Proofs.Reachable
import Wayfind.Proofs.FindOpt
import Wayfind.Proofs.FindDelete
import Wayfind.Proofs.FindInsertAny

/-! the tree as a finite map, lifted to sequences of inserts and deletes -/

theorem allData_of_leaves : ∀ (ks : Kids), Kids.leaves ks → Kids.allData ks
  | .nil, _ => trivial
  | .cons l n r, h => by
    obtain ⟨⟨i, hi⟩, hr⟩ := h
    exact ⟨by rw [(routes_leaf hi).2]; simp, allData_of_leaves r hr⟩

mutual
theorem Node.SOK_of_Shp : ∀ (n : Node), Node.Shp n → Node.SOK n
  | .mk x s dc d wc w ec e ds ws dirty, h => by
    simp only [Node.Shp] at h
    obtain ⟨h1, h2, _, _, h5, h6, _, _, _, _, _, _, _, _, _, _, h17, h18, h19, h20, h21⟩ := h
    exact ⟨Kids.SOKs_of_Shpk s h1 h2 h17, Kids.SOKp_of_Shpk dc h18, Kids.SOKp_of_Shpk d h19, Kids.SOKp_of_Shpk wc h20,
      Kids.SOKp_of_Shpk w h21, allData_of_leaves ec h5, allData_of_leaves e h6⟩
theorem Kids.SOKs_of_Shpk : ∀ (ks : Kids), Kids.All (fun l _ => l.pre ≠ []) ks → Kids.distinctHeads ks → Kids.Shpk ks → Kids.SOKs ks
  | .nil, _, _, _ => trivial
  | .cons l n r, h1, h2, h3 => by
    simp only [Kids.All] at h1
    simp only [Kids.distinctHeads] at h2
    simp only [Kids.Shpk] at h3
    exact ⟨h1.1, h2.1, Node.SOK_of_Shp n h3.1, Kids.SOKs_of_Shpk r h1.2 h2.2 h3.2.2⟩
theorem Kids.SOKp_of_Shpk : ∀ (ks : Kids), Kids.Shpk ks → Kids.SOKp ks
  | .nil, _ => trivial
  | .cons l n r, h => by
    simp only [Kids.Shpk] at h
    exact ⟨Node.SOK_of_Shp n h.1, Kids.SOKp_of_Shpk r h.2.2⟩
end

/-- the value found under `Q` after inserting the routes `xs` in order into a tree where `Q` had value `old`:
a later insert under the same key overwrites, except under a catch-all key, which keeps what it has -/
def insVal (Q : List Part) : List (List Part × Info) → Option Info → Option Info
  | [], old => old
  | x :: xs, old => insVal Q xs (if x.1 = Q then some (keepOld Q old x.2) else old)

/-- lookup in the list of routes inserted by one call (the tree did not hold any of their keys before) -/
def lookupIns (xs : List (List Part × Info)) (Q : List Part) : Option Info := insVal Q xs none

theorem insVal_not_mem (Q : List Part) : ∀ (xs : List (List Part × Info)) (old : Option Info), Q ∉ xs.map (·.1) →
    insVal Q xs old = old
  | [], _, _ => rfl
  | x :: xs, old, h => by
    simp only [List.map_cons, List.mem_cons, not_or] at h
    have : ¬ x.1 = Q := fun h' => h.1 h'.symm
    simp only [insVal, this, ite_false]
    exact insVal_not_mem Q xs old h.2

theorem lookupIns_none_of_not_mem (xs : List (List Part × Info)) (Q : List Part) (h : Q ∉ xs.map (·.1)) :
    lookupIns xs Q = none := insVal_not_mem Q xs none h

theorem insVal_some_mem (Q : List Part) : ∀ (xs : List (List Part × Info)) (old : Option Info) (j : Info),
    insVal Q xs old = some j → old = some j ∨ ∃ x ∈ xs, x.1 = Q ∧ j = x.2
  | [], old, j, h => Or.inl h
  | x :: xs, old, j, h => by
    simp only [insVal] at h
    rcases insVal_some_mem Q xs _ j h with h1 | ⟨y, hy, hyq, hj⟩
    · by_cases hx : x.1 = Q
      · simp only [hx, ite_true, Option.some.injEq] at h1
        unfold keepOld at h1
        split at h1
        · cases old with
          | none => exact Or.inr ⟨x, by simp, hx, by simpa using h1.symm⟩
          | some o => exact Or.inl (by simpa using h1)
        · exact Or.inr ⟨x, by simp, hx, h1.symm⟩
      · simp only [hx, ite_false] at h1; exact Or.inl h1
    · exact Or.inr ⟨y, by simp [hy], hyq, hj⟩

theorem insVal_isSome_of_some (Q : List Part) : ∀ (xs : List (List Part × Info)) (o : Info), (insVal Q xs (some o)).isSome = true
  | [], _ => rfl
  | x :: xs, o => by
    simp only [insVal]
    split
    · exact insVal_isSome_of_some Q xs _
    · exact insVal_isSome_of_some Q xs o

theorem insVal_isSome_of_mem (Q : List Part) : ∀ (xs : List (List Part × Info)) (old : Option Info), Q ∈ xs.map (·.1) →
    (insVal Q xs old).isSome = true
  | [], _, h => by cases h
  | x :: xs, old, h => by
    simp only [insVal]
    by_cases hx : x.1 = Q
    · simp only [hx, ite_true]; exact insVal_isSome_of_some Q xs _
    · simp only [hx, ite_false]
      simp only [List.map_cons, List.mem_cons] at h
      rcases h with h | h
      · exact absurd h.symm hx
      · exact insVal_isSome_of_mem Q xs old h

/-- find after inserting a sequence of well-formed routes (keys may repeat and may be present already) -/
theorem find_foldl_insert_any : ∀ (xs : List (List Part × Info)) (n : Node), Node.Shp n →
    (∀ x ∈ xs, wfParts x.1 = true) →
    Node.Shp (xs.foldl (fun t x => Node.insert t x.1 x.2) n) ∧
    ∀ Q, wfParts Q = true →
      Node.find (xs.foldl (fun t x => Node.insert t x.1 x.2) n) Q = insVal Q xs (Node.find n Q)
  | [], n, hS, _ => ⟨hS, fun Q _ => rfl⟩
  | x :: xs, n, hS, hwf => by
    simp only [List.foldl_cons]
    have hx := hwf x (by simp)
    have hS1 := (Node.insert_Shp n x.1 x.2 hS hx).1
    obtain ⟨hS2, hfind⟩ := find_foldl_insert_any xs _ hS1 (fun y hy => hwf y (by simp [hy]))
    refine ⟨hS2, ?_⟩
    intro Q hQ
    rw [hfind Q hQ, Node.find_insert' n x.1 Q x.2 (Node.SOK_of_Shp n hS) (wfParts_altOK _ hx) (wfParts_altOK _ hQ)]
    simp only [insVal]
    by_cases hq : x.1 = Q
    · subst hq; simp
    · have hq' : ¬ Q = x.1 := fun h => hq h.symm
      simp [hq, hq']

/-- find after inserting a sequence of fresh well-formed routes (keys may repeat) -/
theorem find_foldl_insert (xs : List (List Part × Info)) (n : Node) (hS : Node.Shp n)
    (hwf : ∀ x ∈ xs, wfParts x.1 = true) (hfresh : ∀ x ∈ xs, Node.find n x.1 = none) :
    Node.Shp (xs.foldl (fun t x => Node.insert t x.1 x.2) n) ∧
    ∀ Q, wfParts Q = true →
      Node.find (xs.foldl (fun t x => Node.insert t x.1 x.2) n) Q = (match lookupIns xs Q with | some i => some i | none => Node.find n Q) := by
  obtain ⟨hS', hfind⟩ := find_foldl_insert_any xs n hS hwf
  refine ⟨hS', ?_⟩
  intro Q hQ
  rw [hfind Q hQ]
  by_cases hm : Q ∈ xs.map (·.1)
  · obtain ⟨x, hx, hxq⟩ := List.mem_map.1 hm
    have : Node.find n Q = none := by rw [← hxq]; exact hfresh x hx
    rw [this]
    unfold lookupIns
    have := insVal_isSome_of_mem Q xs none hm
    cases h : insVal Q xs none with
    | none => rw [h] at this
    | some i => rfl
  · rw [insVal_not_mem Q xs _ hm, lookupIns_none_of_not_mem xs Q hm]

/-- find after deleting a sequence of well-formed routes -/
theorem find_foldl_delete : ∀ (Ps : List (List Part)) (n : Node), Node.Shp n → (∀ P ∈ Ps, wfParts P = true) →
    Node.Shp (Ps.foldl (fun t x => (Node.delete false t x).1) n) ∧
    ∀ Q, wfParts Q = true →
      Node.find (Ps.foldl (fun t x => (Node.delete false t x).1) n) Q = if Q ∈ Ps then none else Node.find n Q
  | [], n, hS, _ => ⟨hS, fun Q _ => by simp⟩
  | P :: Ps, n, hS, hwf => by
    simp only [List.foldl_cons]
    have hP := hwf P (by simp)
    have hS1 := Node.delete_Shp n false P hS hP
    obtain ⟨hS2, hfind⟩ := find_foldl_delete Ps _ hS1 (fun y hy => hwf y (by simp [hy]))
    refine ⟨hS2, ?_⟩
    intro Q hQ
    rw [hfind Q hQ, (Node.find_delete n false P Q hS hP hQ).1]
    by_cases h1 : Q ∈ Ps
    · simp [h1]
    · by_cases h2 : Q = P
      · simp [h2]
      · simp [h1, h2]
