import Wayfind.Proofs.Registry9
import Wayfind.Proofs.ParseNonempty
import Wayfind.Proofs.CloneCells

/-! the combined invariant along histories; `delete` on live and non-live templates; atomicity; round trip -/

structure RInv (r : Router) (L : List LiveT) : Prop where
  reg : Reg r.root L
  rc : RcInv r L

/-- a delete that passes validation names a live template -/
theorem validated_is_live {r : Router} {L : List LiveT} (hreg : Reg r.root L) {t : Bytes} {ts : List (Bytes × List Part)}
    (hp : parseTemplates t = .ok ts) (hm : mismatchOf r.root t ts = none)
    (hany : ts.any (fun e => (Node.find r.root e.2).isNone) = false) : ∃ lt ∈ L, lt.template = t := by
  obtain ⟨e, he⟩ := List.exists_mem_of_ne_nil _ (parse_nonempty hp)
  have hfe : (Node.find r.root e.2).isNone = false := by
    cases hh : (Node.find r.root e.2).isNone with
    | false => rfl
    | true =>
      have : ts.any (fun e => (Node.find r.root e.2).isNone) = true := List.any_eq_true.2 ⟨e, he, hh⟩
      rw [hany] at this; cases this
  cases hf : Node.find r.root e.2 with
  | none => rw [hf] at hfe; cases hfe
  | some i =>
    have ht := mismatchOf_none hm e he i hf
    obtain ⟨lt, hlt, _, _, _, hok⟩ := hreg.sound e.2 i (parse_wf hp e he) hf
    exact ⟨lt, hlt, by rw [← hok.1, ht]⟩


/-! ### `Clone`: every shared value of the copy holds a cell of its own, with count one -/

theorem find?_range_map (k : Nat) : ∀ (n : Nat),
    ((List.range n).map (fun c => (c, 1))).find? (fun x : Nat × Nat => x.1 == k) = if k < n then some (k, 1) else none
  | 0 => by simp
  | n + 1 => by
    rw [List.range_succ, List.map_append, List.find?_append, find?_range_map k n]
    by_cases h : k < n
    · simp [h, Nat.lt_succ_of_lt h]
    · by_cases h2 : k = n
      · subst h2; simp
      · have h3 : ¬ k < n + 1 := by omega
        have h4 : (n == k) = false := by simp; omega
        simp [h, h3, h4]

theorem rcGet_range (nx k : Nat) (h : k < nx) : rcGet ((List.range nx).map (fun c => (c, 1))) k = 1 := by
  unfold rcGet
  rw [find?_range_map, if_pos h]
  rfl

theorem Router.clone_root (r : Router) : r.clone.root = (Node.recell r.root 0).1 := rfl
theorem Router.clone_next (r : Router) : r.clone.next = (Node.recell r.root 0).2 := rfl
theorem Router.clone_rc (r : Router) : r.clone.rc = (List.range (Node.recell r.root 0).2).map (fun c => (c, 1)) := rfl

theorem RcInv.clone {r : Router} {L : List LiveT} (hreg : Reg r.root L) (h : RcInv r L) : RcInv r.clone L := by
  have hregc := Reg.clone hreg
  refine ⟨?_, ?_, ?_⟩
  · intro lt hlt hlen e he i hf
    obtain ⟨j, hfj, _⟩ := hreg.complete lt hlt e he
    have hj := h.single lt hlt hlen e he j hfj
    rw [Router.clone_root] at hf
    have := (recell_cell_isSome r.root e.2 i j hf hfj).1
    rw [hj] at this
    cases hc : i.cell with
    | none => rfl
    | some c => rw [hc] at this; cases this
  · intro lt hlt hlen e he i hf
    have hwf := parse_wf (hreg.parsed lt hlt)
    obtain ⟨j, hfj, _⟩ := hreg.complete lt hlt e he
    obtain ⟨k0, hk0, _, _⟩ := h.multi lt hlt hlen e he j hfj
    rw [Router.clone_root] at hf
    have hs := (recell_cell_isSome r.root e.2 i j hf hfj).1
    rw [hk0] at hs
    cases hc : i.cell with
    | none => rw [hc] at hs; cases hs
    | some k =>
      have hlt' := (recell_cell_inj r.root hreg.shp e.2 e.2 (hwf e he) (hwf e he) i i k hf hf hc hc).2
      refine ⟨k, rfl, by rw [Router.clone_next]; exact hlt', ?_⟩
      rw [Router.clone_rc, rcGet_range _ _ hlt', Router.clone_root]
      have hpos := cellKeys_pos (Node.recell r.root 0).1 k lt.exps [] e he (by simp) (by rw [cellAt_of_find hf, hc])
      have hle := cellKeys_le_one (Node.recell r.root 0).1 k e.2 lt.exps [] (by
        intro y hy _ hca
        unfold cellAt at hca
        cases hfy : Node.find (Node.recell r.root 0).1 y.2 with
        | none => rw [hfy] at hca; cases hca
        | some i' =>
          rw [hfy] at hca
          exact (recell_cell_inj r.root hreg.shp y.2 e.2 (hwf y hy) (hwf e he) i' i k hfy hf hca hc).1)
      omega
  · intro lt1 hlt1 lt2 hlt2 e1 he1 e2 he2 i1 i2 k hf1 hf2 hc1 hc2
    have hwf1 := parse_wf (hreg.parsed lt1 hlt1) e1 he1
    have hwf2 := parse_wf (hreg.parsed lt2 hlt2) e2 he2
    rw [Router.clone_root] at hf1 hf2
    have hk := (recell_cell_inj r.root hreg.shp e1.2 e2.2 hwf1 hwf2 i1 i2 k hf1 hf2 hc1 hc2).1
    obtain ⟨a, hfa, hoka⟩ := hregc.complete lt1 hlt1 e1 he1
    obtain ⟨b, hfb, hokb⟩ := hregc.complete lt2 hlt2 e2 he2
    rw [Router.clone_root] at hfa hfb
    rw [hk] at hfa
    rw [hfa] at hfb; injection hfb with hfb
    rw [← hoka.1, ← hokb.1, hfb]

theorem inv_step {r : Router} {L : List LiveT} (h : RInv r L) (c : Call) :
    RInv (r.step c) (liveAfter r L c) := by
  cases c with
  | constraint name ty =>
    simp only [Router.step, Router.constraint, liveAfter]
    split <;> rename_i heq
    · split at heq
      · cases heq
      · injection heq with heq; subst heq
        exact ⟨h.reg, ⟨h.rc.single, h.rc.multi, h.rc.sep⟩⟩
    · exact h
  | insert t d =>
    simp only [Router.step, liveAfter]
    cases hi : r.insert t d with
    | error e => exact h
    | ok r' =>
      obtain ⟨ts, hp, _, _, _⟩ := (Router.insert_ok_iff r r' t d).1 hi
      simp only [hp]
      exact ⟨Reg.insert h.reg hi ts hp, RcInv.insert h.reg h.rc hi ts hp⟩
  | delete t =>
    simp only [Router.step, liveAfter]
    cases hp : parseTemplates t with
    | error e => simp only [Router.delete, hp]; exact h
    | ok ts =>
      simp only []
      by_cases hv : mismatchOf r.root t ts = none ∧ ts.any (fun e => (Node.find r.root e.2).isNone) = false
      · rw [if_pos hv]
        obtain ⟨lt, hlt, rfl⟩ := validated_is_live h.reg hp hv.1 hv.2
        have hexps : lt.exps = ts := by
          have := h.reg.parsed lt hlt
          rw [hp] at this; injection this with this; exact this.symm
        have hne : lt.exps ≠ [] := by rw [hexps]; exact parse_nonempty hp
        obtain ⟨_, h2, h3⟩ := delete_live h.reg h.rc lt hlt hne
        exact ⟨h2, h3⟩
      · rw [if_neg hv]
        have : (r.delete t).2 = r := by
          unfold Router.delete
          simp only [hp]
          cases hm : mismatchOf r.root t ts with
          | some ins => rfl
          | none =>
            simp only []
            have : ts.any (fun e => (Node.find r.root e.2).isNone) = true := by
              cases hh : ts.any (fun e => (Node.find r.root e.2).isNone) with
              | true => rfl
              | false => exact absurd ⟨hm, hh⟩ hv
            simp only [this, ite_true]
        rw [this]; exact h
  | clone => exact ⟨Reg.clone h.reg, RcInv.clone h.reg h.rc⟩

theorem runLive_inv : ∀ (calls : List Call) (r : Router) (L : List LiveT), RInv r L →
    RInv (runLive r L calls).1 (runLive r L calls).2
  | [], _, _, h => h
  | c :: cs, r, L, h => by
    simp only [runLive]
    exact runLive_inv cs _ _ (inv_step h c)

theorem Live.rinv {r : Router} {L : List LiveT} (h : Live r L) : RInv r L := by
  obtain ⟨b, calls, he⟩ := h
  have := runLive_inv calls { registry := b } [] ⟨Reg.empty, RcInv.empty b⟩
  rw [← he] at this
  exact this

theorem Live.step {r : Router} {L : List LiveT} (h : Live r L) (c : Call) :
    Live (r.step c) (liveAfter r L c) := by
  obtain ⟨b, calls, he⟩ := h
  refine ⟨b, calls ++ [c], ?_⟩
  · have key : ∀ (cs : List Call) (r0 : Router) (L0 : List LiveT) (c : Call),
        runLive r0 L0 (cs ++ [c]) = ((runLive r0 L0 cs).1.step c, liveAfter (runLive r0 L0 cs).1 (runLive r0 L0 cs).2 c) := by
      intro cs
      induction cs with
      | nil => intro r0 L0 c; rfl
      | cons x xs ih => intro r0 L0 c; simp only [List.cons_append, runLive]; exact ih _ _ c
    rw [key, ← he]

/-- **C09, live template.** `delete(t)` of a live template returns the data given at insertion and removes exactly it -/
theorem delete_live_api {r : Router} {L : List LiveT} (h : Live r L) (lt : LiveT) (hlt : lt ∈ L) :
    (r.delete lt.template).1 = .ok lt.data ∧
    Live (r.delete lt.template).2 (L.filter (fun x => x.template != lt.template)) := by
  have hinv := h.rinv
  have hne : lt.exps ≠ [] := parse_nonempty (hinv.reg.parsed lt hlt)
  obtain ⟨h1, _, _⟩ := delete_live hinv.reg hinv.rc lt hlt hne
  refine ⟨h1, ?_⟩
  have := h.step (.delete lt.template)
  -- the live set after the call is the filtered one
  have hp := hinv.reg.parsed lt hlt
  have hm : mismatchOf r.root lt.template lt.exps = none := by
    unfold mismatchOf
    apply List.findSome?_eq_none_iff.2
    intro e he
    obtain ⟨i, hf, hok⟩ := hinv.reg.complete lt hlt e he
    rw [hf]; simp [hok.1]
  have hany : lt.exps.any (fun e => (Node.find r.root e.2).isNone) = false := by
    apply Bool.eq_false_iff.2
    intro hh
    obtain ⟨e, he, hn⟩ := List.any_eq_true.1 hh
    obtain ⟨i, hf, _⟩ := hinv.reg.complete lt hlt e he
    rw [hf] at hn; cases hn
  simpa [Router.step, liveAfter, hp, hm, hany] using this

/-- **C09, not live.** If `t` is not, character for character, a live template, `delete(t)` changes nothing and reports
a template error, a mismatch naming a live template that owns one of `t`'s expansions, or not-found when none of
`t`'s expansions is a live route. -/
theorem delete_not_live {r : Router} {L : List LiveT} (h : Live r L) (t : Bytes) (hnl : ∀ lt ∈ L, lt.template ≠ t) :
    (r.delete t).2 = r ∧
    ((∃ e, (r.delete t).1 = .error (.template e) ∧ parseTemplates t = .error e) ∨
     (∃ ins ts, (r.delete t).1 = .error (.mismatch t ins) ∧ parseTemplates t = .ok ts ∧
        ∃ lt ∈ L, lt.template = ins ∧ ∃ e ∈ lt.exps, ∃ e' ∈ ts, e.2 = e'.2) ∨
     (∃ ts, (r.delete t).1 = .error (.notFound t) ∧ parseTemplates t = .ok ts ∧
        ∀ lt ∈ L, ∀ e ∈ lt.exps, ∀ e' ∈ ts, e.2 ≠ e'.2)) := by
  have hreg := h.rinv.reg
  unfold Router.delete
  cases hp : parseTemplates t with
  | error e => exact ⟨rfl, Or.inl ⟨e, rfl, rfl⟩⟩
  | ok ts =>
    simp only []
    cases hm : mismatchOf r.root t ts with
    | some ins =>
      refine ⟨rfl, Or.inr (Or.inl ⟨ins, ts, rfl, rfl, ?_⟩)⟩
      obtain ⟨e', he', i, hf, hti, _⟩ := mismatchOf_some hm
      obtain ⟨lt, hlt, e, he, hk, hok⟩ := hreg.sound e'.2 i (parse_wf hp e' he') hf
      exact ⟨lt, hlt, by rw [← hok.1, hti], e, he, e', he', hk⟩
    | none =>
      simp only []
      by_cases hany : ts.any (fun e => (Node.find r.root e.2).isNone) = true
      · rw [if_pos hany]
        refine ⟨rfl, Or.inr (Or.inr ⟨ts, rfl, rfl, ?_⟩)⟩
        -- no expansion of `t` is a live route: a found one would belong to a template spelled `t`
        intro lt hlt e he e' he' hk
        obtain ⟨i, hf, hok⟩ := hreg.complete lt hlt e he
        have := mismatchOf_none hm e' he' i (by rw [← hk]; exact hf)
        exact hnl lt hlt (by rw [← hok.1, this])
      · have hany' : ts.any (fun e => (Node.find r.root e.2).isNone) = false := by simpa using hany
        obtain ⟨lt, hlt, hlt'⟩ := validated_is_live hreg hp hm hany'
        exact absurd hlt' (hnl lt hlt)

/-- **C10, delete.** A `delete` that returns an error has changed nothing. -/
theorem delete_error_atomic {r : Router} {L : List LiveT} (h : Live r L) (t : Bytes) (e : DeleteErr)
    (he : (r.delete t).1 = .error e) : (r.delete t).2 = r := by
  by_cases hl : ∃ lt ∈ L, lt.template = t
  · obtain ⟨lt, hlt, rfl⟩ := hl
    rw [(delete_live_api h lt hlt).1] at he; cases he
  · exact (delete_not_live h t (by intro lt hlt heq; exact hl ⟨lt, hlt, heq⟩)).1
