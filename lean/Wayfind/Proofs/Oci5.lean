import Wayfind.Proofs.Oci4

/-! C17: every endpoint URL of the OCI example resolves to the route of its template, with the repository name and the
last parameter extracted verbatim — for every name the constraint accepts, of any length and any number of segments. -/

/-- what the URL's pieces have to satisfy: a non-empty name accepted by the `name` constraint, and a non-empty last
parameter without '/' (both valid UTF-8, which `&str` inputs are) -/
structure OArgs (env : Env) (k : OK) (v1 v2 : Bytes) : Prop where
  name : k ≠ .root → v1 ≠ [] ∧ env.valid v1 = true ∧ env.chk lN.cons v1 = true
  last : k.hasLast = true → v2 ≠ [] ∧ (47 : Byte) ∉ v2 ∧ env.valid v2 = true

theorem fits_par_last {env : Env} {k : PKind} {l : Label} {v : Bytes} (hv : v ≠ []) (hs : wildK k = false → (47 : Byte) ∉ v)
    (hval : env.valid v = true) (hc : consK k = true → env.chk l.cons v = true) :
    Fits env [.par k l] v [(l.name, v)] := by
  have := Fits.par k l v [] [] [] hv hs hval hc Fits.nil
  simpa using this

theorem fits_stat_last {env : Env} {p : Bytes} (hp : p ≠ []) : Fits env [.stat p] p [] := by
  have := Fits.stat (env := env) p [] [] [] hp Fits.nil
  simpa using this

/-- the expected expansion fits its URL with the expected values -/
theorem opath_fits (env : Env) (k : OK) (slash : Bool) (v1 v2 : Bytes) (ha : OArgs env k v1 v2) :
    Fits env (k.exp slash).2 (opath k slash v1 v2) (ovs k v1 v2) := by
  obtain ⟨hn, hl⟩ := ha
  have wN : ∀ (rest : List Part) (path : Bytes) (vs : Params), v1 ≠ [] → env.valid v1 = true → env.chk lN.cons v1 = true →
      Fits env rest path vs → Fits env (.stat [47, 118, 50, 47] :: .par .wildC lN :: rest) ([47, 118, 50, 47] ++ (v1 ++ path)) ((lN.name, v1) :: vs) :=
    fun rest path vs a b c hrest =>
      Fits.stat _ _ _ _ (by simp) (Fits.par .wildC lN v1 path vs rest a (by intro h; cases h) b (fun _ => c) hrest)
  cases k <;> cases slash <;> simp only [opath, ovs, ite_true, ite_false, Bool.false_eq_true, List.append_assoc]
  · exact fits_stat_last (by simp)
  · exact fits_stat_last (p := [47, 118, 50, 47]) (by simp)
  · obtain ⟨a, b, c⟩ := hn (by simp); obtain ⟨d, e, f⟩ := hl rfl
    exact wN _ _ _ a b c (Fits.stat _ _ _ _ (by simp) (fits_par_last d (fun _ => e) f (by intro h; cases h)))
  · obtain ⟨a, b, c⟩ := hn (by simp); obtain ⟨d, e, f⟩ := hl rfl
    exact wN _ _ _ a b c (Fits.stat _ _ _ _ (by simp)
      (Fits.par .dyn lD v2 [47] [] _ d (fun _ => e) f (by intro h; cases h) (fits_stat_last (by simp))))
  · obtain ⟨a, b, c⟩ := hn (by simp); obtain ⟨d, e, f⟩ := hl rfl
    exact wN _ _ _ a b c (Fits.stat _ _ _ _ (by simp) (fits_par_last d (fun _ => e) f (by intro h; cases h)))
  · obtain ⟨a, b, c⟩ := hn (by simp); obtain ⟨d, e, f⟩ := hl rfl
    exact wN _ _ _ a b c (Fits.stat _ _ _ _ (by simp)
      (Fits.par .dyn lR v2 [47] [] _ d (fun _ => e) f (by intro h; cases h) (fits_stat_last (by simp))))
  · obtain ⟨a, b, c⟩ := hn (by simp)
    exact wN _ _ _ a b c (fits_stat_last (by simp))
  · obtain ⟨a, b, c⟩ := hn (by simp)
    exact wN _ _ _ a b c (fits_stat_last (p := [47, 116, 97, 103, 115, 47, 108, 105, 115, 116, 47]) (by simp))
  · obtain ⟨a, b, c⟩ := hn (by simp)
    exact wN _ _ _ a b c (fits_stat_last (by simp))
  · obtain ⟨a, b, c⟩ := hn (by simp)
    exact wN _ _ _ a b c (fits_stat_last (p := [47, 98, 108, 111, 98, 115, 47, 117, 112, 108, 111, 97, 100, 115, 47]) (by simp))
  · obtain ⟨a, b, c⟩ := hn (by simp); obtain ⟨d, e, f⟩ := hl rfl
    exact wN _ _ _ a b c (Fits.stat _ _ _ _ (by simp) (fits_par_last d (fun _ => e) f (by intro h; cases h)))
  · obtain ⟨a, b, c⟩ := hn (by simp); obtain ⟨d, e, f⟩ := hl rfl
    exact wN _ _ _ a b c (Fits.stat _ _ _ _ (by simp)
      (Fits.par .dyn lR v2 [47] [] _ d (fun _ => e) f (by intro h; cases h) (fits_stat_last (by simp))))

theorem OK.pick_exp (k : OK) (slash : Bool) : pick (k.exp slash).2 k.exps = some (k.exp slash) := by
  cases k <;> cases slash <;> decide

/-- **C17.** Let a router, reached through the API, hold any set of the example's templates in which the blob and the
upload-start template do not occur together (the example registers them under different methods). Then every URL of one
of the six shapes, with or without the trailing slash, resolves to the live template of that shape, reports its expansion,
its data (the handler), and exactly the repository name and the last parameter. -/
theorem oci_resolves (env : Env) {r : Router} {L : List LiveT} (h : Live r L)
    (hL : ∀ lt ∈ L, ∃ k : OK, lt.template = k.template)
    (hclash : ∀ lt ∈ L, ∀ lt' ∈ L, lt.template = OK.blob.template → lt'.template = OK.uploads.template → False)
    (lt : LiveT) (hlt : lt ∈ L) (k : OK) (hk : lt.template = k.template) (slash : Bool) (v1 v2 : Bytes)
    (ha : OArgs env k v1 v2) :
    r.search env (opath k slash v1 v2) = some ⟨k.template, some (k.exp slash).1, lt.data, ovs k v1 v2⟩ := by
  have hreg := h.rinv.reg
  have exps_of : ∀ lt' ∈ L, ∀ k' : OK, lt'.template = k'.template → lt'.exps = k'.exps := by
    intro lt' hlt' k' hk'
    have a := hreg.parsed lt' hlt'
    rw [hk', k'.parse] at a
    injection a with a; exact a.symm
  have hexps := exps_of lt hlt k hk
  have he : k.exp slash ∈ lt.exps := by rw [hexps]; exact k.exp_mem slash
  have hfit := opath_fits env k slash v1 v2 ha
  have hrs := rsplit_opath k slash v1 v2 (fun hh => (ha.last hh).2.1)
  rw [search_unique_fit env h (opath k slash v1 v2) lt hlt (k.exp slash) he (ovs k v1 v2) hfit]
  · -- the reported value
    simp only [toMatch, specInfo, hexps, k.pick_exp slash, Option.getD_some, hk]
    have : k.exps.length > 1 := by rw [k.exps_eq]; simp
    simp [this]
  · -- uniqueness of the reading
    intro lt' hlt' e' he' vs' hf'
    obtain ⟨k', hk'⟩ := hL lt' hlt'
    rw [exps_of lt' hlt' k' hk', k'.exps_eq] at he'
    have hcl : OK.clash k' k = false := by
      cases hc : OK.clash k' k with
      | false => rfl
      | true =>
        exfalso
        simp only [OK.clash, Bool.or_eq_true, Bool.and_eq_true, beq_iff_eq] at hc
        rcases hc with ⟨rfl, rfl⟩ | ⟨rfl, rfl⟩
        · exact hclash lt' hlt' lt hlt hk' hk
        · exact hclash lt hlt lt' hlt' hk hk'
    have key : ∀ s', Fits env (k'.exp s').2 (opath k slash v1 v2) vs' → (k'.exp s').2 = (k.exp slash).2 ∧ vs' = ovs k v1 v2 := by
      intro s' hf
      obtain ⟨w1, w2, hpat, hvs, hw2, hw1, _⟩ := fits_opat env k' s' _ vs' hf
      rw [hrs] at hpat
      obtain ⟨e1, e2, e3, e4⟩ := opat_inj k' k s' slash (rsplit w1) (rsplit v1) w2 v2 (fun hh => (hw2 hh).1)
        (fun hh => (ha.last hh).1) hcl hpat.symm
      subst e1 e2
      refine ⟨rfl, ?_⟩
      rw [hvs]
      have hv1 : k' ≠ .root → w1 = v1 := fun hh => rsplit_inj (e3 hh)
      cases k' <;> simp only [ovs]
      · rw [hv1 (by simp), e4 rfl]
      · rw [hv1 (by simp), e4 rfl]
      · rw [hv1 (by simp)]
      · rw [hv1 (by simp)]
      · rw [hv1 (by simp), e4 rfl]
    simp only [List.mem_cons, List.mem_singleton, List.not_mem_nil, or_false] at he'
    rcases he' with rfl | rfl
    · exact key true hf'
    · exact key false hf'

#print axioms oci_resolves
