import Wayfind.Proofs.InsShp
import Wayfind.Proofs.Order

/-! facts about the insertion sort of child vectors -/

theorem insertSorted_All {P : Label → Node → Prop} (l : Label) (n : Node) : ∀ (ks : Kids),
    P l n → Kids.All P ks → Kids.All P (Kids.insertSorted l n ks)
  | .nil, h, _ => ⟨h, trivial⟩
  | .cons l' n' r, h, hk => by
    simp only [Kids.insertSorted]
    split
    · exact ⟨h, hk⟩
    · exact ⟨hk.1, insertSorted_All l n r h hk.2⟩

theorem sort_All {P : Label → Node → Prop} : ∀ (ks : Kids), Kids.All P ks → Kids.All P (Kids.sort ks)
  | .nil, _ => trivial
  | .cons l n r, h => insertSorted_All l n _ h.1 (sort_All r h.2)

theorem All_of_insertSorted {P : Label → Node → Prop} (l : Label) (n : Node) : ∀ (ks : Kids),
    Kids.All P (Kids.insertSorted l n ks) → P l n ∧ Kids.All P ks
  | .nil, h => ⟨h.1, trivial⟩
  | .cons l' n' r, h => by
    simp only [Kids.insertSorted] at h
    split at h
    · exact ⟨h.1, h.2⟩
    · have := All_of_insertSorted l n r h.2
      exact ⟨this.1, h.1, this.2⟩

theorem labels_insertSorted_perm (l : Label) (n : Node) : ∀ (ks : Kids),
    (Kids.insertSorted l n ks).labels.Perm (l :: ks.labels)
  | .nil => List.Perm.refl _
  | .cons l' n' r => by
    simp only [Kids.insertSorted]
    split
    · exact List.Perm.refl _
    · simp only [Kids.labels]
      exact ((labels_insertSorted_perm l n r).cons l').trans (List.Perm.swap l l' _)

theorem labels_sort_perm : ∀ (ks : Kids), (Kids.sort ks).labels.Perm ks.labels
  | .nil => List.Perm.refl _
  | .cons l n r => (labels_insertSorted_perm l n _).trans ((labels_sort_perm r).cons l)

theorem heads_insertSorted_perm (l : Label) (n : Node) : ∀ (ks : Kids),
    (Kids.insertSorted l n ks).heads.Perm (l.pre.head? :: ks.heads)
  | .nil => List.Perm.refl _
  | .cons l' n' r => by
    simp only [Kids.insertSorted]
    split
    · exact List.Perm.refl _
    · simp only [Kids.heads]
      exact ((heads_insertSorted_perm l n r).cons _).trans (List.Perm.swap _ _ _)

theorem heads_sort_perm : ∀ (ks : Kids), (Kids.sort ks).heads.Perm ks.heads
  | .nil => List.Perm.refl _
  | .cons l n r => (heads_insertSorted_perm l n _).trans ((heads_sort_perm r).cons _)

theorem nodupL_perm {L L' : List Label} (h : L.Perm L') (hn : NodupL L) : NodupL L' :=
  (h.pairwise_iff (fun {a b} (hab : a ≠ b) => fun e => hab e.symm)).1 hn

/-- inserting a label different from all labels of a strictly sorted vector keeps it strictly sorted -/
theorem sortedL_insertSorted (l : Label) (n : Node) : ∀ (ks : Kids), SortedL ks.labels → l ∉ ks.labels →
    SortedL (Kids.insertSorted l n ks).labels
  | .nil, _, _ => by simp [Kids.insertSorted, Kids.labels, SortedL]
  | .cons l' n' r, hs, hn => by
    simp only [Kids.labels, SortedL, List.pairwise_cons] at hs
    simp only [Kids.labels, List.mem_cons, not_or] at hn
    simp only [Kids.insertSorted]
    split
    · rename_i hlt
      simp only [Kids.labels, SortedL, List.pairwise_cons, List.mem_cons]
      refine ⟨?_, hs.1, hs.2⟩
      rintro x (rfl | hx)
      · exact hlt
      · exact Label.lt_trans _ _ _ hlt (hs.1 x hx)
    · rename_i hlt
      have hgt : Label.lt l' l = true := by
        rcases Label.lt_total l l' hn.1 with h | h
        · exact absurd h hlt
        · exact h
      have ih := sortedL_insertSorted l n r hs.2 hn.2
      simp only [Kids.labels, SortedL, List.pairwise_cons]
      refine ⟨?_, ih⟩
      intro x hx
      have := (labels_insertSorted_perm l n r).mem_iff.1 hx
      simp only [List.mem_cons] at this
      rcases this with rfl | hx'
      · exact hgt
      · exact hs.1 x hx'

theorem sortedL_sort : ∀ (ks : Kids), NodupL ks.labels → SortedL (Kids.sort ks).labels
  | .nil, _ => by simp [Kids.sort, Kids.labels, SortedL]
  | .cons l n r, h => by
    simp only [Kids.labels, NodupL, List.pairwise_cons] at h
    apply sortedL_insertSorted l n _ (sortedL_sort r h.2)
    intro hm
    have := (labels_sort_perm r).mem_iff.1 hm
    exact h.1 l this rfl

theorem isNil_insertSorted (l : Label) (n : Node) : ∀ (ks : Kids), (Kids.insertSorted l n ks).isNil = false
  | .nil => rfl
  | .cons _ _ _ => by simp only [Kids.insertSorted]; split <;> rfl

theorem isNil_sort : ∀ (ks : Kids), (Kids.sort ks).isNil = ks.isNil
  | .nil => rfl
  | .cons l n r => by
    show (Kids.insertSorted l n (Kids.sort r)).isNil = false
    exact isNil_insertSorted l n _
