import Wayfind.Proofs.Inv

/-! child vectors as sequences: append, and how predicates distribute over it -/

def Kids.app : Kids → Kids → Kids
  | .nil, b => b
  | .cons l n r, b => .cons l n (Kids.app r b)

def Kids.one (l : Label) (n : Node) : Kids := .cons l n .nil

theorem Kids.app_nil : ∀ (a : Kids), Kids.app a .nil = a
  | .nil => rfl
  | .cons l n r => by simp [Kids.app, Kids.app_nil r]

theorem Kids.All_app {P : Label → Node → Prop} : ∀ (a b : Kids), Kids.All P (Kids.app a b) ↔ Kids.All P a ∧ Kids.All P b
  | .nil, b => by simp [Kids.app, Kids.All]
  | .cons l n r, b => by simp [Kids.app, Kids.All, Kids.All_app r b, and_assoc]

theorem Kids.labels_app : ∀ (a b : Kids), (Kids.app a b).labels = a.labels ++ b.labels
  | .nil, b => rfl
  | .cons l n r, b => by simp [Kids.app, Kids.labels, Kids.labels_app r b]

theorem Kids.Shpk_app : ∀ (a b : Kids), Kids.Shpk (Kids.app a b) ↔ Kids.Shpk a ∧ Kids.Shpk b
  | .nil, b => by simp [Kids.app, Kids.Shpk]
  | .cons l n r, b => by simp [Kids.app, Kids.Shpk, Kids.Shpk_app r b, and_assoc]

theorem Kids.leaves_app : ∀ (a b : Kids), Kids.leaves (Kids.app a b) ↔ Kids.leaves a ∧ Kids.leaves b
  | .nil, b => by simp [Kids.app, Kids.leaves]
  | .cons l n r, b => by simp [Kids.app, Kids.leaves, Kids.leaves_app r b, and_assoc]

def Kids.heads : Kids → List (Option Byte)
  | .nil => []
  | .cons l _ r => l.pre.head? :: Kids.heads r

theorem Kids.heads_app : ∀ (a b : Kids), (Kids.app a b).heads = a.heads ++ b.heads
  | .nil, b => rfl
  | .cons l n r, b => by simp [Kids.app, Kids.heads, Kids.heads_app r b]

theorem noHead_iff (b : Option Byte) : ∀ (ks : Kids), Kids.noHead b ks ↔ b ∉ ks.heads
  | .nil => by simp [Kids.noHead, Kids.heads]
  | .cons l n r => by
    simp only [Kids.noHead, Kids.heads, List.mem_cons, not_or, noHead_iff b r]
    constructor
    · rintro ⟨h1, h2⟩; exact ⟨fun e => h1 e.symm, h2⟩
    · rintro ⟨h1, h2⟩; exact ⟨fun e => h1 e.symm, h2⟩

theorem distinctHeads_iff : ∀ (ks : Kids), Kids.distinctHeads ks ↔ ks.heads.Pairwise (· ≠ ·)
  | .nil => by simp [Kids.distinctHeads, Kids.heads]
  | .cons l n r => by
    simp only [Kids.distinctHeads, Kids.heads, List.pairwise_cons, noHead_iff, distinctHeads_iff r]
    constructor
    · rintro ⟨h1, h2⟩; exact ⟨fun x hx e => h1 (e ▸ hx), h2⟩
    · rintro ⟨h1, h2⟩; exact ⟨fun hx => h1 _ hx rfl, h2⟩

/-- total number of bytes and parameters in a part list: strictly decreases at every descent of `insert` -/
def psize : List Part → Nat
  | [] => 0
  | .stat p :: rest => p.length + 1 + psize rest
  | .par _ _ :: rest => 1 + psize rest
