import Wayfind.Proofs.Canon2

/-! Canonical form, part 3: **literal siblings are sorted** (by their first bytes, which are pairwise different).
After `optimize` everywhere; `insert` leaves unsorted vectors only under dirty marks; `delete` keeps sortedness
(removal keeps the order, a merge keeps the first byte of the label). -/

def optLt : Option Byte → Option Byte → Prop
  | some x, some y => x < y
  | _, _ => False

/-- first bytes strictly increasing -/
def SH (s : Kids) : Prop := s.heads.Pairwise optLt

theorem heads_eq_map : ∀ (s : Kids), s.heads = s.labels.map (fun l => l.pre.head?)
  | .nil => rfl
  | .cons l n r => by simp [Kids.heads, Kids.labels, heads_eq_map r]

theorem All_label_iff {P : Label → Prop} : ∀ (s : Kids), Kids.All (fun l _ => P l) s ↔ ∀ l ∈ s.labels, P l
  | .nil => by simp [Kids.All, Kids.labels]
  | .cons l n r => by simp [Kids.All, Kids.labels, All_label_iff r]

theorem optLt_of_lt {a b : Label} (ha : a.pre ≠ []) (hb : b.pre ≠ []) (hne : a.pre.head? ≠ b.pre.head?)
    (h : Label.lt a b = true) : optLt a.pre.head? b.pre.head? := by
  cases hpa : a.pre with
  | nil => exact absurd hpa ha
  | cons x xs =>
    cases hpb : b.pre with
    | nil => exact absurd hpb hb
    | cons y ys =>
      rw [hpa, hpb] at hne
      simp only [List.head?_cons, ne_eq, Option.some.injEq] at hne
      simp only [List.head?_cons, optLt]
      rw [Label.lt_def, hpa, hpb] at h
      simp only [lexLt_cons, Bool.or_eq_true, Bool.and_eq_true, decide_eq_true_eq, beq_iff_eq, List.cons.injEq] at h
      rcases h with (h | h) | h
      · exact h
      · exact absurd h.1 hne
      · exact absurd h.1.1 hne

theorem SH_of_sortedL (s : Kids) (h1 : Kids.All (fun l _ => l.pre ≠ []) s) (h2 : Kids.distinctHeads s)
    (h3 : SortedL s.labels) : SH s := by
  rw [distinctHeads_iff, heads_eq_map, List.pairwise_map] at h2
  rw [All_label_iff] at h1
  unfold SH
  rw [heads_eq_map, List.pairwise_map]
  unfold SortedL at h3
  have h := h3.and h2
  exact h.imp_of_mem (fun {a b} ha hb hab => optLt_of_lt (h1 a ha) (h1 b hb) hab.2 hab.1)

theorem nodupL_of_distinctHeads (s : Kids) (h2 : Kids.distinctHeads s) : NodupL s.labels := by
  rw [distinctHeads_iff, heads_eq_map, List.pairwise_map] at h2
  exact h2.imp (fun {a b} hab e => hab (by rw [e]))

mutual
def Node.SrtS : Node → Prop
  | .mk _ s dc d wc w _ _ _ _ _ => SH s ∧ Kids.SrtSk s ∧ Kids.SrtSk dc ∧ Kids.SrtSk d ∧ Kids.SrtSk wc ∧ Kids.SrtSk w
def Kids.SrtSk : Kids → Prop
  | .nil => True
  | .cons _ n r => Node.SrtS n ∧ Kids.SrtSk r
end

mutual
def Node.SoDS : Node → Prop
  | .mk x s dc d wc w ec e ds ws dirty =>
    Node.SrtS (.mk x s dc d wc w ec e ds ws dirty) ∨
    (dirty = true ∧ Kids.SoDSk s ∧ Kids.SoDSk dc ∧ Kids.SoDSk d ∧ Kids.SoDSk wc ∧ Kids.SoDSk w)
def Kids.SoDSk : Kids → Prop
  | .nil => True
  | .cons _ n r => Node.SoDS n ∧ Kids.SoDSk r
end

theorem Kids.SrtSk_app : ∀ (a b : Kids), Kids.SrtSk (Kids.app a b) ↔ Kids.SrtSk a ∧ Kids.SrtSk b
  | .nil, b => by simp [Kids.app, Kids.SrtSk]
  | .cons l n r, b => by simp [Kids.app, Kids.SrtSk, Kids.SrtSk_app r b, and_assoc]
theorem SrtSk_cons_iff (l : Label) (n : Node) (r : Kids) : Kids.SrtSk (.cons l n r) ↔ Node.SrtS n ∧ Kids.SrtSk r := by
  simp [Kids.SrtSk]
theorem SrtSk_iff_All : ∀ (ks : Kids), Kids.SrtSk ks ↔ Kids.All (fun _ n => Node.SrtS n) ks
  | .nil => by simp [Kids.SrtSk, Kids.All]
  | .cons l n r => by simp [Kids.SrtSk, Kids.All, SrtSk_iff_All r]
theorem Kids.SoDSk_app : ∀ (a b : Kids), Kids.SoDSk (Kids.app a b) ↔ Kids.SoDSk a ∧ Kids.SoDSk b
  | .nil, b => by simp [Kids.app, Kids.SoDSk]
  | .cons l n r, b => by simp [Kids.app, Kids.SoDSk, Kids.SoDSk_app r b, and_assoc]

theorem SoDS_of_SrtS : ∀ (n : Node), Node.SrtS n → Node.SoDS n
  | .mk _ _ _ _ _ _ _ _ _ _ _, h => Or.inl h

theorem SoDSk_of_SrtSk : ∀ (ks : Kids), Kids.SrtSk ks → Kids.SoDSk ks
  | .nil, _ => trivial
  | .cons _ n r, h => ⟨SoDS_of_SrtS n h.1, SoDSk_of_SrtSk r h.2⟩

theorem SoDS_kids : ∀ {x s dc d wc w ec e ds ws dirty}, Node.SoDS (.mk x s dc d wc w ec e ds ws dirty) →
    Kids.SoDSk s ∧ Kids.SoDSk dc ∧ Kids.SoDSk d ∧ Kids.SoDSk wc ∧ Kids.SoDSk w := by
  intro x s dc d wc w ec e ds ws dirty hD
  simp only [Node.SoDS] at hD
  rcases hD with h | h
  · simp only [Node.SrtS] at h
    exact ⟨SoDSk_of_SrtSk s h.2.1, SoDSk_of_SrtSk dc h.2.2.1, SoDSk_of_SrtSk d h.2.2.2.1, SoDSk_of_SrtSk wc h.2.2.2.2.1,
      SoDSk_of_SrtSk w h.2.2.2.2.2⟩
  · exact h.2

theorem SoDS_dirty {x s dc d wc w ec e ds ws} (h : Kids.SoDSk s ∧ Kids.SoDSk dc ∧ Kids.SoDSk d ∧ Kids.SoDSk wc ∧ Kids.SoDSk w) :
    Node.SoDS (.mk x s dc d wc w ec e ds ws true) := by
  simp only [Node.SoDS]; exact Or.inr ⟨trivial, h⟩

theorem chain_SoDS : ∀ (P : List Part) (i : Info), Node.SoDS (chain P i)
  | [], i => by simp [chain, Node.leaf, Node.SoDS, Kids.SoDSk]
  | .stat p :: rest, i => by
    have := chain_SoDS rest i
    simp only [chain]
    exact SoDS_dirty ⟨⟨this, trivial⟩, trivial, trivial, trivial, trivial⟩
  | .par k l :: rest, i => by
    have ih := chain_SoDS rest i
    simp only [chain]
    split <;> exact SoDS_dirty (by simp [Kids.SoDSk, ih])

theorem splitParent_SoDS (la : Label) (n : Node) (h : Node.SoDS n) : Node.SoDS (splitParent la n) := by
  simp only [splitParent]
  exact SoDS_dirty ⟨⟨h, trivial⟩, trivial, trivial, trivial, trivial⟩

def SoDSIH (m : Nat) : Prop :=
  ∀ P, psize P < m → ∀ (n : Node) (i : Info), Node.SoDS n → wfParts P = true → Node.SoDS (Node.insert n P i)

theorem sods_par_vec (m : Nat) (ih : SoDSIH m) (ks : Kids) (l : Label) (rest : List Part) (i : Info)
    (hsz : psize rest < m) (hwf : wfParts rest = true) (h : Kids.SoDSk ks) : Kids.SoDSk (Kids.insertPar ks l rest i) := by
  rcases insertPar_cases ks l rest i with ⟨A, n, B, hks, _, hres⟩ | ⟨_, hres⟩
  · subst hks
    rw [hres]
    rw [Kids.SoDSk_app] at h ⊢
    exact ⟨h.1, ih rest hsz n i h.2.1 hwf, h.2.2⟩
  · rw [hres, Kids.SoDSk_app]
    exact ⟨h, chain_SoDS rest i, trivial⟩

theorem sods_stat_vec (m : Nat) (ih : SoDSIH m) (ks : Kids) (p : Bytes) (rest : List Part) (i : Info)
    (hsz : psize (.stat p :: rest) ≤ m) (hwf : wfParts (.stat p :: rest) = true)
    (h : Kids.SoDSk ks) : Kids.SoDSk (Kids.insertStatic ks p rest i) := by
  have halt := wfParts_altOK _ hwf
  have hp := altOK_stat_ne halt
  rcases insertStatic_cases ks p rest i halt with ⟨A, l, n, B, t, hks, _, hhd, hres⟩ | ⟨A, l, n, B, c, hks, hc0, _, _, _, _, hres⟩ | ⟨_, hres⟩
  · subst hks
    rw [hres]
    have hlne : l.pre ≠ [] := by
      intro e; rw [e] at hhd
      cases p with
      | nil => exact hp rfl
      | cons _ _ => simp at hhd
    have hlpos : 0 < l.pre.length := List.length_pos_iff.mpr hlne
    rw [Kids.SoDSk_app] at h ⊢
    exact ⟨h.1, ih _ (by have := psize_below_lt p l.pre.length rest hlpos; omega) n i h.2.1 (wfParts_below p _ rest hwf), h.2.2⟩
  · subst hks
    rw [hres]
    rw [Kids.SoDSk_app] at h ⊢
    exact ⟨h.1, ih _ (by have := psize_below_lt p c rest hc0; omega) _ i (splitParent_SoDS _ n h.2.1) (wfParts_below p _ rest hwf), h.2.2⟩
  · rw [hres, Kids.SoDSk_app]
    exact ⟨h, chain_SoDS rest i, trivial⟩

theorem sodsIH_all : ∀ m, SoDSIH m := by
  intro m
  induction m with
  | zero => intro P h; omega
  | succ m ih =>
    intro P hP n i hD hwf
    cases n with
    | mk x s dc d wc w ec e ds ws dirty =>
    obtain ⟨qs, qdc, qd, qwc, qw⟩ := SoDS_kids hD
    cases P with
    | nil => simp only [Node.insert]; exact SoDS_dirty ⟨qs, qdc, qd, qwc, qw⟩
    | cons part rest =>
      cases part with
      | stat p =>
        simp only [Node.insert]
        exact SoDS_dirty ⟨sods_stat_vec m ih s p rest i (by omega) hwf qs, qdc, qd, qwc, qw⟩
      | par k l =>
        have hwr := wfParts_tail hwf
        have hsz : psize rest < m := by simp only [psize] at hP; omega
        simp only [Node.insert]
        split
        · exact SoDS_dirty ⟨qs, sods_par_vec m ih dc l rest i hsz hwr qdc, qd, qwc, qw⟩
        · exact SoDS_dirty ⟨qs, qdc, sods_par_vec m ih d l rest i hsz hwr qd, qwc, qw⟩
        · exact SoDS_dirty ⟨qs, qdc, qd, sods_par_vec m ih wc l rest i hsz hwr qwc, qw⟩
        · exact SoDS_dirty ⟨qs, qdc, qd, qwc, sods_par_vec m ih w l rest i hsz hwr qw⟩
        · exact SoDS_dirty ⟨qs, qdc, qd, qwc, qw⟩
        · exact SoDS_dirty ⟨qs, qdc, qd, qwc, qw⟩

theorem Node.insert_SoDS (n : Node) (P : List Part) (i : Info) (hD : Node.SoDS n) (hwf : wfParts P = true) :
    Node.SoDS (Node.insert n P i) := sodsIH_all (psize P + 1) P (Nat.lt_succ_self _) n i hD hwf

/-! ### the dirty-gated `optimize` sorts every literal vector that may be unsorted -/

mutual
theorem Node.optimize_SrtS : ∀ (n : Node), Node.Shp n → Node.SoDS n → Node.SrtS (Node.optimize n)
  | .mk x s dc d wc w ec e ds ws dirty, hS, hD => by
    have hSo := Node.optimize_Shp _ hS
    simp only [Node.optimize] at hSo ⊢
    split
    · rename_i hnd
      simp only [Node.SoDS] at hD
      rcases hD with h | h
      · exact h
      · simp [h.1] at hnd
    · rename_i hnd
      rw [if_neg hnd] at hSo
      obtain ⟨qs, qdc, qd, qwc, qw⟩ := SoDS_kids hD
      simp only [Node.Shp] at hS
      obtain ⟨hs1, hs2, _, _, _, _, _, _, _, _, _, _, _, _, _, _, ks, kdc, kd, kwc, kw⟩ := hS
      simp only [Node.Shp] at hSo
      obtain ⟨os1, os2, _⟩ := hSo
      have srt : ∀ v : Kids, Kids.SrtSk (Kids.optimizeAll v) → Kids.SrtSk (Kids.optimizeAll v).sort := fun v hv => by
        rw [SrtSk_iff_All] at hv ⊢; exact sort_All _ hv
      simp only [Node.SrtS]
      refine ⟨?_, srt s (Kids.optimizeAll_SrtSk s ks qs), srt dc (Kids.optimizeAll_SrtSk dc kdc qdc),
        srt d (Kids.optimizeAll_SrtSk d kd qd), srt wc (Kids.optimizeAll_SrtSk wc kwc qwc), srt w (Kids.optimizeAll_SrtSk w kw qw)⟩
      apply SH_of_sortedL _ os1 os2
      apply sortedL_sort
      rw [labels_optimizeAll]
      exact nodupL_of_distinctHeads s hs2
theorem Kids.optimizeAll_SrtSk : ∀ (ks : Kids), Kids.Shpk ks → Kids.SoDSk ks → Kids.SrtSk (Kids.optimizeAll ks)
  | .nil, _, _ => trivial
  | .cons l n r, hS, hD => ⟨Node.optimize_SrtS n hS.1 hD.1, Kids.optimizeAll_SrtSk r hS.2.2 hD.2⟩
end

/-! ### `delete` keeps literal vectors sorted, with no help from `optimize` -/

theorem SrtS_setDirty : ∀ (n : Node), Node.SrtS n.setDirty ↔ Node.SrtS n
  | .mk _ _ _ _ _ _ _ _ _ _ _ => by simp [Node.setDirty, Node.SrtS]

theorem SH_sub_app (A : Kids) (l : Label) (n : Node) (B : Kids) (h : SH (Kids.app A (.cons l n B))) : SH (Kids.app A B) := by
  unfold SH at h ⊢
  rw [Kids.heads_app] at h ⊢
  simp only [Kids.heads] at h
  exact h.sublist (List.Sublist.append (List.Sublist.refl _) (List.sublist_cons_self _ _))

theorem SH_relabel (A : Kids) (l l' : Label) (n n' : Node) (B : Kids) (hh : l'.pre.head? = l.pre.head?)
    (h : SH (Kids.app A (.cons l n B))) : SH (Kids.app A (.cons l' n' B)) := by
  unfold SH at h ⊢
  rw [Kids.heads_app] at h ⊢
  simp only [Kids.heads] at h ⊢
  rw [hh]; exact h

def DelSrtIH (m : Nat) : Prop :=
  ∀ P, psize P < m → ∀ (n : Node) (mark : Bool), Node.Shp n → Node.SrtS n → wfParts P = true →
    Node.SrtS (Node.delete mark n P).1

theorem SrtSk_sub_app (A : Kids) (l : Label) (n : Node) (B : Kids) (h : Kids.SrtSk (Kids.app A (.cons l n B))) :
    Kids.SrtSk (Kids.app A B) := by
  rw [Kids.SrtSk_app, SrtSk_cons_iff] at h; rw [Kids.SrtSk_app]; exact ⟨h.1, h.2.2⟩

theorem delsrt_par_vec (m : Nat) (ih : DelSrtIH m) (ks : Kids) (l : Label) (rest : List Part)
    (hsz : psize rest < m) (hwf : wfParts rest = true) (h0 : Kids.Shpk ks) (h : Kids.SrtSk ks) :
    Kids.SrtSk (Kids.deletePar ks l rest).1 := by
  rcases deletePar_cases ks l rest with ⟨A, n, B, hks, _, hres⟩ | ⟨_, hres⟩
  · subst hks
    rw [hres]
    have hsub := SrtSk_sub_app A l n B h
    rw [Kids.Shpk_app, Shpk_cons_iff] at h0
    rw [Kids.SrtSk_app, SrtSk_cons_iff] at h
    have g := ih rest hsz n false h0.2.1 h.2.1 hwf
    cases he : (Node.delete false n rest).1.isEmptyN with
    | true => simpa using hsub
    | false =>
      simp only [Bool.false_eq_true, ite_false]
      rw [Kids.SrtSk_app, SrtSk_cons_iff]; exact ⟨h.1, g, h.2.2⟩
  · rw [hres]; exact h

theorem delsrt_stat_vec (m : Nat) (ih : DelSrtIH m) (ks : Kids) (p : Bytes) (rest : List Part)
    (hsz : psize (.stat p :: rest) ≤ m) (hwf : wfParts (.stat p :: rest) = true)
    (h0 : Kids.Shpk ks) (hne : Kids.All (fun l _ => l.pre ≠ []) ks) (hs : SH ks) (h : Kids.SrtSk ks) :
    SH (Kids.deleteStatic ks p rest).1 ∧ Kids.SrtSk (Kids.deleteStatic ks p rest).1 := by
  rcases deleteStatic_cases ks p rest with ⟨A, l, n, B, hks, _, hres⟩ | hres
  · subst hks
    rw [hres]
    have hsubH := SH_sub_app A l n B hs
    have hsub := SrtSk_sub_app A l n B h
    rw [Kids.Shpk_app, Shpk_cons_iff] at h0
    rw [Kids.All_app, All_cons_iff] at hne
    rw [Kids.SrtSk_app, SrtSk_cons_iff] at h
    have hlpos : 0 < l.pre.length := List.length_pos_iff.mpr hne.2.1
    have g := ih (below p l.pre.length rest) (by have := psize_below_lt p l.pre.length rest hlpos; omega)
      n true h0.2.1 h.2.1 (wfParts_below p _ rest hwf)
    simp only [afterAt, afterStatic]
    cases he : (Node.delete true n (below p l.pre.length rest)).1.isEmptyN with
    | true => simp only [ite_true]; exact ⟨hsubH, hsub⟩
    | false =>
      simp only [Bool.false_eq_true, ite_false]
      cases hcm : (Node.delete true n (below p l.pre.length rest)).1.compress? with
      | none =>
        simp only
        exact ⟨SH_relabel A l l n _ B rfl hs, by rw [Kids.SrtSk_app, SrtSk_cons_iff]; exact ⟨h.1, g, h.2.2⟩⟩
      | some lgg =>
        obtain ⟨lg, gg⟩ := lgg
        obtain ⟨ds', ws', dirty', hn'⟩ := compress_some hcm
        rw [hn'] at g
        simp only [Node.SrtS, Kids.SrtSk] at g
        simp only
        refine ⟨SH_relabel A l _ n _ B (by show (l.pre ++ lg.pre).head? = l.pre.head?; exact head_append_ne hne.2.1) hs, ?_⟩
        rw [Kids.SrtSk_app, SrtSk_cons_iff]
        exact ⟨h.1, (SrtS_setDirty gg).2 g.2.1.1, h.2.2⟩
  · rw [hres]; exact ⟨hs, h⟩

theorem delSrtIH_all : ∀ m, DelSrtIH m := by
  intro m
  induction m with
  | zero => intro P h; omega
  | succ m ih =>
    intro P hP n mark hS hC hwf
    cases n with
    | mk x s dc d wc w ec e ds ws dirty =>
    simp only [Node.Shp] at hS
    obtain ⟨hs1, _, _, _, _, _, _, _, _, _, _, _, _, _, _, _, ks, kdc, kd, kwc, kw⟩ := hS
    simp only [Node.SrtS] at hC
    obtain ⟨c0, cs, cdc, cd, cwc, cw⟩ := hC
    cases P with
    | nil => cases x <;> simp only [Node.delete, Node.SrtS] <;> exact ⟨c0, cs, cdc, cd, cwc, cw⟩
    | cons part rest =>
      cases part with
      | stat p =>
        obtain ⟨a1, a2⟩ := delsrt_stat_vec m ih s p rest (by omega) hwf ks hs1 c0 cs
        simp only [Node.delete, Node.SrtS]
        exact ⟨a1, a2, cdc, cd, cwc, cw⟩
      | par k l =>
        have hwr := wfParts_tail hwf
        have hsz : psize rest < m := by simp only [psize] at hP; omega
        simp only [Node.delete]
        cases hsl : slotOf k rest.isEmpty <;> simp only [Node.SrtS]
        · exact ⟨c0, cs, delsrt_par_vec m ih dc l rest hsz hwr kdc cdc, cd, cwc, cw⟩
        · exact ⟨c0, cs, cdc, delsrt_par_vec m ih d l rest hsz hwr kd cd, cwc, cw⟩
        · exact ⟨c0, cs, cdc, cd, delsrt_par_vec m ih wc l rest hsz hwr kwc cwc, cw⟩
        · exact ⟨c0, cs, cdc, cd, cwc, delsrt_par_vec m ih w l rest hsz hwr kw cw⟩
        · exact ⟨c0, cs, cdc, cd, cwc, cw⟩
        · exact ⟨c0, cs, cdc, cd, cwc, cw⟩

theorem Node.delete_SrtS (n : Node) (mark : Bool) (P : List Part) (hS : Node.Shp n) (hC : Node.SrtS n)
    (hwf : wfParts P = true) : Node.SrtS (Node.delete mark n P).1 :=
  delSrtIH_all (psize P + 1) P (Nat.lt_succ_self _) n mark hS hC hwf
