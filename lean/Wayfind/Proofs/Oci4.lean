import Wayfind.Proofs.Oci3

/-! Reading an OCI endpoint URL is unique (C17): pattern injectivity, the fit of the expected route, and the theorem. -/

/-- the only two kinds whose URLs can coincide: `/v2/<name>/blobs/uploads` is a blob URL with digest `uploads`
(the example registers them under different HTTP methods) -/
def OK.clash (k k' : OK) : Bool := (k == .blob && k' == .uploads) || (k == .uploads && k' == .blob)

theorem opat_inj (k k' : OK) (s s' : Bool) (X X' : List Bytes) (v2 v2' : Bytes)
    (hv : k.hasLast = true → v2 ≠ []) (hv' : k'.hasLast = true → v2' ≠ [])
    (hc : OK.clash k k' = false) (h : opat k s X v2 = opat k' s' X' v2') :
    k = k' ∧ s = s' ∧ (k ≠ .root → X = X') ∧ (k.hasLast = true → v2 = v2') := by
  cases k <;> cases k' <;> cases s <;> cases s' <;>
    simp (config := {decide := true}) [opat, OK.hasLast, OK.clash] at h hv hv' hc ⊢ <;>
    first
      | done
      | (exfalso; simp_all (config := {decide := true}); done)
      | (simp_all (config := {decide := true}); done)

theorem OK.template_inj {k k' : OK} (h : k.template = k'.template) : k = k' := by
  cases k <;> cases k' <;> first | rfl | (exfalso; revert h; decide)

/-- the segments of the URL of kind `k` -/
theorem rsplit_opath (k : OK) (slash : Bool) (v1 v2 : Bytes) (h2 : k.hasLast = true → (47 : Byte) ∉ v2) :
    rsplit (opath k slash v1 v2) = opat k slash (rsplit v1) v2 := by
  cases k <;> cases slash <;> simp only [opath, opat, ite_true, ite_false, Bool.false_eq_true, List.append_assoc]
  · exact rs_root
  · exact rs_root_s
  · exact rs_two sBlobs (by decide) v1 v2 (h2 rfl)
  · exact rs_two_s sBlobs (by decide) v1 v2 (h2 rfl)
  · exact rs_two sManifests (by decide) v1 v2 (h2 rfl)
  · exact rs_two_s sManifests (by decide) v1 v2 (h2 rfl)
  · exact rs_lit2 sTags sList (by decide) (by decide) v1
  · exact rs_lit2_s sTags sList (by decide) (by decide) v1
  · exact rs_lit2 sBlobs sUploads (by decide) (by decide) v1
  · exact rs_lit2_s sBlobs sUploads (by decide) (by decide) v1
  · exact rs_three sBlobs sUploads (by decide) (by decide) v1 v2 (h2 rfl)
  · exact rs_three_s sBlobs sUploads (by decide) (by decide) v1 v2 (h2 rfl)
