import Wayfind.Proofs.DelShp

theorem allSlash_iff_All : ∀ (ks : Kids), Kids.allSlash ks ↔ Kids.All (fun l _ => l.pre.head? = some 47) ks
  | .nil => by simp [Kids.allSlash, Kids.All]
  | .cons l n r => by simp [Kids.allSlash, Kids.All, allSlash_iff_All r]

theorem Srt_setDirty : ∀ (n : Node), Node.Srt n.setDirty ↔ Node.Srt n
  | .mk _ _ _ _ _ _ _ _ _ _ _ => by simp [Node.setDirty, Node.Srt]
theorem FS_setDirty : ∀ (n : Node), Node.FS n.setDirty ↔ Node.FS n
  | .mk _ _ _ _ _ _ _ _ _ _ _ => by simp [Node.setDirty, Node.FS]

theorem Kids.Srtk_app : ∀ (a b : Kids), Kids.Srtk (Kids.app a b) ↔ Kids.Srtk a ∧ Kids.Srtk b
  | .nil, b => by simp [Kids.app, Kids.Srtk]
  | .cons l n r, b => by simp [Kids.app, Kids.Srtk, Kids.Srtk_app r b, and_assoc]
theorem Kids.FSk_app : ∀ (a b : Kids), Kids.FSk (Kids.app a b) ↔ Kids.FSk a ∧ Kids.FSk b
  | .nil, b => by simp [Kids.app, Kids.FSk]
  | .cons l n r, b => by simp [Kids.app, Kids.FSk, Kids.FSk_app r b, and_assoc]

theorem sortedL_sublist {L L' : List Label} (h : L'.Sublist L) (hs : SortedL L) : SortedL L' :=
  List.Pairwise.sublist h hs

def GoodIH (m : Nat) : Prop :=
  ∀ P, psize P < m → ∀ (n : Node) (mark : Bool), Node.Shp n → wfParts P = true → Node.Srt n → Node.FS n →
    Node.Srt (Node.delete mark n P).1 ∧ Node.FS (Node.delete mark n P).1 ∧
    (Kids.allSlash n.statics → Kids.allSlash (Node.delete mark n P).1.statics)

/-- a parameter vector after `deletePar`: still sorted, children still sorted/flag-sound,
    and children that justified a set flag still justify it -/
theorem good_par_vec (m : Nat) (ih : GoodIH m) (ks : Kids) (l : Label) (rest : List Part)
    (hsz : psize rest < m) (hwf : wfParts rest = true) (hst : startsStatOrEnd rest)
    (h0 : Kids.Shpk ks) (h1 : SortedL ks.labels) (h2 : Kids.Srtk ks) (h3 : Kids.FSk ks) :
    SortedL (Kids.deletePar ks l rest).1.labels ∧ Kids.Srtk (Kids.deletePar ks l rest).1 ∧
    Kids.FSk (Kids.deletePar ks l rest).1 ∧
    (Kids.All (fun _ c => childOK c) ks → Kids.All (fun _ c => childOK c) (Kids.deletePar ks l rest).1) := by
  rcases deletePar_cases ks l rest with ⟨A, n, B, hks, _, hres⟩ | ⟨_, hres⟩
  · subst hks
    rw [hres]
    rw [Kids.Shpk_app, Shpk_cons_iff] at h0
    rw [Kids.Srtk_app] at h2
    rw [Kids.FSk_app] at h3
    obtain ⟨gS, gF, gA⟩ := ih rest hsz n false h0.2.1 hwf h2.2.1 h3.2.1
    obtain ⟨_, _, dO⟩ := delIH_all (psize rest + 1) rest (Nat.lt_succ_self _) n false h0.2.1 hwf
    cases he : (Node.delete false n rest).1.isEmptyN with
    | true =>
      simp only [ite_true]
      refine ⟨sortedL_sublist (app_labels_sublist A l n B) h1, by rw [Kids.Srtk_app]; exact ⟨h2.1, h2.2.2⟩,
        by rw [Kids.FSk_app]; exact ⟨h3.1, h3.2.2⟩, ?_⟩
      intro hc; rw [Kids.All_app, All_cons_iff] at hc; rw [Kids.All_app]; exact ⟨hc.1, hc.2.2⟩
    | false =>
      simp only [Bool.false_eq_true, ite_false]
      refine ⟨by simpa [Kids.labels_app, Kids.labels] using h1, by rw [Kids.Srtk_app]; exact ⟨h2.1, gS, h2.2.2⟩,
        by rw [Kids.FSk_app]; exact ⟨h3.1, gF, h3.2.2⟩, ?_⟩
      intro hc
      rw [Kids.All_app, All_cons_iff] at hc ⊢
      exact ⟨hc.1, ⟨dO hst hc.2.1.1, gA hc.2.1.2⟩, hc.2.2⟩
  · rw [hres]; exact ⟨h1, h2, h3, fun h => h⟩

theorem good_end_vec (ks : Kids) (l : Label) (h1 : SortedL ks.labels) : SortedL (Kids.deleteEnd ks l).1.labels := by
  rcases deleteEnd_cases ks l with ⟨A, n, B, hks, _, hres⟩ | ⟨_, hres⟩
  · subst hks; rw [hres]; exact sortedL_sublist (app_labels_sublist A l n B) h1
  · rw [hres]; exact h1

/-- the static vector after `deleteStatic` -/
theorem good_stat_vec (m : Nat) (ih : GoodIH m) (ks : Kids) (p : Bytes) (rest : List Part)
    (hsz : psize (.stat p :: rest) ≤ m) (hwf : wfParts (.stat p :: rest) = true)
    (h0 : Kids.Shpk ks) (hne : Kids.All (fun l _ => l.pre ≠ []) ks) (h2 : Kids.Srtk ks) (h3 : Kids.FSk ks) :
    Kids.Srtk (Kids.deleteStatic ks p rest).1 ∧ Kids.FSk (Kids.deleteStatic ks p rest).1 ∧
    (Kids.allSlash ks → Kids.allSlash (Kids.deleteStatic ks p rest).1) := by
  rcases deleteStatic_cases ks p rest with ⟨A, l, n, B, hks, _, hres⟩ | hres
  · subst hks
    rw [hres]
    rw [Kids.Shpk_app, Shpk_cons_iff] at h0
    rw [Kids.All_app, All_cons_iff] at hne
    rw [Kids.Srtk_app] at h2
    rw [Kids.FSk_app] at h3
    have hlpos : 0 < l.pre.length := List.length_pos_iff.mpr hne.2.1
    obtain ⟨gS, gF, _⟩ := ih (below p l.pre.length rest) (by have := psize_below_lt p l.pre.length rest hlpos; omega)
      n true h0.2.1 (wfParts_below p _ rest hwf) h2.2.1 h3.2.1
    simp only [afterAt, afterStatic]
    cases he : (Node.delete true n (below p l.pre.length rest)).1.isEmptyN with
    | true =>
      simp only [ite_true]
      refine ⟨by rw [Kids.Srtk_app]; exact ⟨h2.1, h2.2.2⟩, by rw [Kids.FSk_app]; exact ⟨h3.1, h3.2.2⟩, ?_⟩
      intro ha; rw [allSlash_iff_All, Kids.All_app, All_cons_iff] at ha; rw [allSlash_iff_All, Kids.All_app]; exact ⟨ha.1, ha.2.2⟩
    | false =>
      simp only [Bool.false_eq_true, ite_false]
      cases hc : (Node.delete true n (below p l.pre.length rest)).1.compress? with
      | none =>
        simp only
        refine ⟨by rw [Kids.Srtk_app]; exact ⟨h2.1, gS, h2.2.2⟩, by rw [Kids.FSk_app]; exact ⟨h3.1, gF, h3.2.2⟩, ?_⟩
        intro ha; rw [allSlash_iff_All, Kids.All_app, All_cons_iff] at ha ⊢; exact ha
      | some lgg =>
        obtain ⟨lg, g⟩ := lgg
        obtain ⟨ds', ws', dirty', hn'⟩ := compress_some hc
        rw [hn'] at gS gF
        simp only [Node.Srt, Kids.Srtk] at gS
        simp only [Node.FS, Kids.FSk] at gF
        simp only
        refine ⟨?_, ?_, ?_⟩
        · rw [Kids.Srtk_app]; exact ⟨h2.1, (Srt_setDirty g).2 gS.2.2.2.2.2.2.1.1, h2.2.2⟩
        · rw [Kids.FSk_app]; exact ⟨h3.1, (FS_setDirty g).2 gF.2.2.1.1, h3.2.2⟩
        · intro ha
          rw [allSlash_iff_All, Kids.All_app, All_cons_iff] at ha ⊢
          refine ⟨ha.1, ?_, ha.2.2⟩
          show (l.pre ++ lg.pre).head? = some 47
          rw [head_append_ne hne.2.1]; exact ha.2.1
  · rw [hres]; exact ⟨h2, h3, fun h => h⟩

theorem goodIH_all : ∀ m, GoodIH m := by
  intro m
  induction m with
  | zero => intro P h; omega
  | succ m ih =>
    intro P hP n mark hS hwf hR hF
    cases n with
    | mk x s dc d wc w ec e ds ws dirty =>
    simp only [Node.Shp] at hS
    obtain ⟨hs1, _, _, _, _, _, _, _, _, _, _, _, _, _, _, _, ks, kdc, kd, kwc, kw⟩ := hS
    simp only [Node.Srt] at hR
    obtain ⟨sdc, sd, swc, sw, sec, se, rs, rdc, rd, rwc, rw'⟩ := hR
    simp only [Node.FS] at hF
    obtain ⟨fds, fws, fs, fdc, fd, fwc, fw⟩ := hF
    cases P with
    | nil =>
      cases x <;> simp only [Node.delete, Node.Srt, Node.FS, Node.statics] <;>
        exact ⟨⟨sdc, sd, swc, sw, sec, se, rs, rdc, rd, rwc, rw'⟩, ⟨fds, fws, fs, fdc, fd, fwc, fw⟩, fun h => h⟩
    | cons part rest =>
      cases part with
      | stat p =>
        obtain ⟨a1, a2, a3⟩ := good_stat_vec m ih s p rest (by omega) hwf ks hs1 rs fs
        simp only [Node.delete, Node.Srt, Node.FS, Node.statics]
        exact ⟨⟨sdc, sd, swc, sw, sec, se, a1, rdc, rd, rwc, rw'⟩, ⟨fds, fws, a2, fdc, fd, fwc, fw⟩, a3⟩
      | par k l =>
        have hwr := wfParts_tail hwf
        have hst := wfParts_after_par hwf
        have hsz : psize rest < m := by simp only [psize] at hP; omega
        simp only [Node.delete]
        cases hsl : slotOf k rest.isEmpty <;> simp only [Node.Srt, Node.FS, Node.statics]
        · obtain ⟨b1, b2, b3, b4⟩ := good_par_vec m ih dc l rest hsz hwr hst kdc sdc rdc fdc
          exact ⟨⟨b1, sd, swc, sw, sec, se, rs, b2, rd, rwc, rw'⟩, ⟨fun h => ⟨b4 (fds h).1, (fds h).2⟩, fws, fs, b3, fd, fwc, fw⟩, fun h => h⟩
        · obtain ⟨b1, b2, b3, b4⟩ := good_par_vec m ih d l rest hsz hwr hst kd sd rd fd
          exact ⟨⟨sdc, b1, swc, sw, sec, se, rs, rdc, b2, rwc, rw'⟩, ⟨fun h => ⟨(fds h).1, b4 (fds h).2⟩, fws, fs, fdc, b3, fwc, fw⟩, fun h => h⟩
        · obtain ⟨b1, b2, b3, b4⟩ := good_par_vec m ih wc l rest hsz hwr hst kwc swc rwc fwc
          exact ⟨⟨sdc, sd, b1, sw, sec, se, rs, rdc, rd, b2, rw'⟩, ⟨fds, fun h => ⟨b4 (fws h).1, (fws h).2⟩, fs, fdc, fd, b3, fw⟩, fun h => h⟩
        · obtain ⟨b1, b2, b3, b4⟩ := good_par_vec m ih w l rest hsz hwr hst kw sw rw' fw
          exact ⟨⟨sdc, sd, swc, b1, sec, se, rs, rdc, rd, rwc, b2⟩, ⟨fds, fun h => ⟨(fws h).1, b4 (fws h).2⟩, fs, fdc, fd, fwc, b3⟩, fun h => h⟩
        · exact ⟨⟨sdc, sd, swc, sw, good_end_vec ec l sec, se, rs, rdc, rd, rwc, rw'⟩, ⟨fds, fws, fs, fdc, fd, fwc, fw⟩, fun h => h⟩
        · exact ⟨⟨sdc, sd, swc, sw, sec, good_end_vec e l se, rs, rdc, rd, rwc, rw'⟩, ⟨fds, fws, fs, fdc, fd, fwc, fw⟩, fun h => h⟩

/-- **Delete needs no optimize**: a tree with the shape, sortedness and flag-soundness invariants still has all
    three after deleting any well-formed part list — whatever the dirty marks say and even though `optimize`
    may not reach the touched nodes (stale `false` flags are sound). Hence T-walk keeps applying. -/
theorem delete_keeps_walk (env : Env) (n : Node) (P : List Part) (hS : Node.Shp n) (hR : Node.Srt n) (hF : Node.FS n)
    (hwf : wfParts P = true) (path : Bytes) (ps : Params) :
    let n' := (Node.delete false n P).1
    Node.Shp n' ∧ Node.Srt n' ∧ Node.FS n' ∧
    Node.search env n' path ps = refWalk env path.length (Node.routes n') path ps := by
  have h1 := Node.delete_Shp n false P hS hwf
  obtain ⟨h2, h3, _⟩ := goodIH_all (psize P + 1) P (Nat.lt_succ_self _) n false hS hwf hR hF
  exact ⟨h1, h2, h3, Node.search_eq_refWalk env _ (TSany_of_Shp_Srt _ h1 h2) h3 path ps path.length (Nat.le_refl _)⟩

#print axioms delete_keeps_walk
