import Wayfind.Model.Messages

/-! The rendered message contains every string that appears as a named argument of its format string (C19). -/

theorem infix_renderSegs (val : Bytes → Bytes) (n : Bytes) : ∀ (segs : List Seg), Seg.field n ∈ segs →
    val n <:+: renderSegs val segs
  | [], h => by cases h
  | .lit b :: rest, h => by
    have h' : Seg.field n ∈ rest := by
      rcases List.mem_cons.1 h with h | h
      · cases h
      · exact h
    obtain ⟨a, c, hac⟩ := infix_renderSegs val n rest h'
    exact ⟨b ++ a, c, by simp [renderSegs, ← hac, List.append_assoc]⟩
  | .field m :: rest, h => by
    rcases List.mem_cons.1 h with h | h
    · injection h with h
      subst h
      exact ⟨[], renderSegs val rest, by simp [renderSegs]⟩
    · obtain ⟨a, c, hac⟩ := infix_renderSegs val n rest h
      exact ⟨val m ++ a, c, by simp [renderSegs, ← hac, List.append_assoc]⟩

theorem infix_sepJoin (sep : Bytes) : ∀ (xs : List Bytes) (x : Bytes), x ∈ xs → x <:+: sepJoin sep xs
  | [], x, h => by cases h
  | [y], x, h => by
    simp only [List.mem_singleton] at h
    subst h
    exact ⟨[], [], by simp [sepJoin]⟩
  | y :: z :: rest, x, h => by
    rcases List.mem_cons.1 h with h | h
    · subst h
      exact ⟨[], sep ++ sepJoin sep (z :: rest), by simp [sepJoin]⟩
    · obtain ⟨a, c, hac⟩ := infix_sepJoin sep (z :: rest) x h
      exact ⟨y ++ sep ++ a, c, by simp [sepJoin, ← hac, List.append_assoc]⟩

theorem infix_trans' {a b c : Bytes} (h1 : a <:+: b) (h2 : b <:+: c) : a <:+: c := List.IsInfix.trans h1 h2

/-- a field of the format string shows up verbatim in the rendered text -/
theorem field_rendered (fmt : Bytes) (val : Bytes → Bytes) (n : Bytes) (h : Seg.field n ∈ parseFmt fmt) :
    val n <:+: renderFmt fmt val := infix_renderSegs val n _ h

/-- every conflicting template shows up verbatim in the rendered list, provided the item format mentions `{conflict}` -/
theorem conflict_in_list (cs : List Bytes) (c : Bytes) (hc : c ∈ cs)
    (hitem : Seg.field fConflict ∈ parseFmt Generated.conflictItemFormat) : c <:+: renderConflictList cs := by
  unfold renderConflictList
  have h1 : c <:+: renderFmt Generated.conflictItemFormat (fun n => if n = fConflict then c else []) := by
    have := field_rendered Generated.conflictItemFormat (fun n => if n = fConflict then c else []) fConflict hitem
    simpa using this
  exact infix_trans' h1 (infix_sepJoin _ _ _ (List.mem_map.2 ⟨c, hc, rfl⟩))
