import Wayfind.Proofs.CloneInv
import Wayfind.Proofs.FindRoutes
import Wayfind.Proofs.RoutesNodup

/-! The cells of a clone. `Node.recell` walks the tree in the order in which `Node.routes` lists it and hands every
shared value the next number: the cells of the stored routes of the copy are `nx, nx+1, …`, each once. Hence in a
clone *different keys hold different cells*, every cell is below `next`, and shared stays shared / inline stays inline. -/

/-- forget *which* cell, keep whether there is one -/
def normCell (i : Info) : Info := { i with cell := i.cell.map (fun _ => 0) }

mutual
theorem Node.recell_norm : ∀ (n : Node) (nx : Nat), Node.mapInfo normCell (Node.recell n nx).1 = Node.mapInfo normCell n
  | .mk x s dc d wc w ec e ds ws dirty, nx => by
    simp only [Node.recell, Node.mapInfo]
    congr 1
    · cases x with
      | none => rfl
      | some i => cases hc : i.cell <;> simp [hc, normCell]
    · exact Kids.recell_norm s _
    · exact Kids.recell_norm dc _
    · exact Kids.recell_norm d _
    · exact Kids.recell_norm wc _
    · exact Kids.recell_norm w _
    · exact Kids.recell_norm ec _
    · exact Kids.recell_norm e _
theorem Kids.recell_norm : ∀ (ks : Kids) (nx : Nat), Kids.mapInfo normCell (Kids.recell ks nx).1 = Kids.mapInfo normCell ks
  | .nil, _ => rfl
  | .cons l n r, nx => by
    simp only [Kids.recell, Kids.mapInfo]
    rw [Node.recell_norm n nx, Kids.recell_norm r _]
end

/-- lookups of a re-celled tree: same value up to the number of the cell -/
theorem recell_find_norm (n : Node) (nx : Nat) (P : List Part) :
    (Node.find (Node.recell n nx).1 P).map normCell = (Node.find n P).map normCell := by
  rw [← Node.find_mapInfo, ← Node.find_mapInfo, Node.recell_norm]

/-- the cells of the stored routes, in the order of `Node.routes` -/
def Node.cells (n : Node) : List Nat := (Node.routes n).filterMap (fun r => r.info.cell)
def Kids.cells (mk : Label → Part) (ks : Kids) : List Nat := (Kids.routes mk ks).filterMap (fun r => r.info.cell)

theorem filterMap_cell_push (p : Part) (rs : List Route) :
    (rs.map (Route.push p)).filterMap (fun r => r.info.cell) = rs.filterMap (fun r => r.info.cell) := by
  rw [List.filterMap_map]; rfl

/-- the step of `Node.recell` at the node's own value -/
def recellData (x : Option Info) (nx : Nat) : Option Info × Nat :=
  match x with
  | some i => (match i.cell with
    | some _ => (some { i with cell := some nx }, nx + 1)
    | none => (some i, nx))
  | none => (none, nx)

theorem Node.recell_mk (x : Option Info) (s dc d wc w ec e : Kids) (ds ws dirty : Bool) (nx : Nat) :
    Node.recell (.mk x s dc d wc w ec e ds ws dirty) nx =
      let X := recellData x nx
      let S := Kids.recell s X.2
      let DC := Kids.recell dc S.2
      let D := Kids.recell d DC.2
      let WC := Kids.recell wc D.2
      let W := Kids.recell w WC.2
      let EC := Kids.recell ec W.2
      let E := Kids.recell e EC.2
      (.mk X.1 S.1 DC.1 D.1 WC.1 W.1 EC.1 E.1 ds ws dirty, E.2) := by
  simp only [Node.recell]
  rfl

theorem Node.routes_mk (x : Option Info) (s dc d wc w ec e : Kids) (ds ws dirty : Bool) :
    Node.routes (.mk x s dc d wc w ec e ds ws dirty) =
      x.toList.map (fun i => (⟨[], i⟩ : Route)) ++ Kids.routes (fun l => .stat l.pre) s
      ++ Kids.routes (.par .dynC) dc ++ Kids.routes (.par .dyn) d
      ++ Kids.routes (.par .wildC) wc ++ Kids.routes (.par .wild) w
      ++ Kids.routes (.par .wildC) ec ++ Kids.routes (.par .wild) e := by
  cases x <;> simp [Node.routes]

theorem recellData_cells (x : Option Info) (nx : Nat) :
    ∃ m, (recellData x nx).2 = nx + m ∧
      ((recellData x nx).1.toList.map (fun i => (⟨[], i⟩ : Route))).filterMap (fun r : Route => r.info.cell)
        = List.range' nx m := by
  cases x with
  | none => exact ⟨0, rfl, rfl⟩
  | some i =>
    cases hc : i.cell with
    | none => exact ⟨0, by simp [recellData, hc], by simp [recellData, hc]⟩
    | some c => exact ⟨1, by simp [recellData, hc], by simp [recellData, hc, List.range']⟩

mutual
theorem Node.recell_cells : ∀ (n : Node) (nx : Nat),
    ∃ m, (Node.recell n nx).2 = nx + m ∧ Node.cells (Node.recell n nx).1 = List.range' nx m
  | .mk x s dc d wc w ec e ds ws dirty, nx => by
    rw [Node.recell_mk]
    simp only [Node.cells, Node.routes_mk, List.filterMap_append]
    obtain ⟨m0, h0a, h0b⟩ := recellData_cells x nx
    generalize recellData x nx = X at h0a h0b ⊢
    obtain ⟨m1, h1a, h1b⟩ := Kids.recell_cells (fun l => .stat l.pre) s X.2
    generalize Kids.recell s X.2 = S at h1a h1b ⊢
    obtain ⟨m2, h2a, h2b⟩ := Kids.recell_cells (.par .dynC) dc S.2
    generalize Kids.recell dc S.2 = DC at h2a h2b ⊢
    obtain ⟨m3, h3a, h3b⟩ := Kids.recell_cells (.par .dyn) d DC.2
    generalize Kids.recell d DC.2 = D at h3a h3b ⊢
    obtain ⟨m4, h4a, h4b⟩ := Kids.recell_cells (.par .wildC) wc D.2
    generalize Kids.recell wc D.2 = WC at h4a h4b ⊢
    obtain ⟨m5, h5a, h5b⟩ := Kids.recell_cells (.par .wild) w WC.2
    generalize Kids.recell w WC.2 = W at h5a h5b ⊢
    obtain ⟨m6, h6a, h6b⟩ := Kids.recell_cells (.par .wildC) ec W.2
    generalize Kids.recell ec W.2 = EC at h6a h6b ⊢
    obtain ⟨m7, h7a, h7b⟩ := Kids.recell_cells (.par .wild) e EC.2
    generalize Kids.recell e EC.2 = E at h7a h7b ⊢
    simp only [Kids.cells] at h1b h2b h3b h4b h5b h6b h7b
    refine ⟨m0 + m1 + m2 + m3 + m4 + m5 + m6 + m7, by omega, ?_⟩
    rw [h0b, h1b, h2b, h3b, h4b, h5b, h6b, h7b, h6a, h5a, h4a, h3a, h2a, h1a, h0a]
    simp only [List.range'_append_1, Nat.add_assoc]
theorem Kids.recell_cells (mk : Label → Part) : ∀ (ks : Kids) (nx : Nat),
    ∃ m, (Kids.recell ks nx).2 = nx + m ∧ Kids.cells mk (Kids.recell ks nx).1 = List.range' nx m
  | .nil, nx => ⟨0, rfl, rfl⟩
  | .cons l n r, nx => by
    simp only [Kids.recell, Kids.cells, Kids.routes, List.filterMap_append, filterMap_cell_push]
    obtain ⟨m1, h1a, h1b⟩ := Node.recell_cells n nx
    obtain ⟨m2, h2a, h2b⟩ := Kids.recell_cells mk r (Node.recell n nx).2
    simp only [Node.cells] at h1b
    simp only [Kids.cells] at h2b
    refine ⟨m1 + m2, by omega, ?_⟩
    rw [h1b, h2b, h1a, List.range'_append_1]
end

theorem eq_of_nodup_filterMap {α β} (f : α → Option β) : ∀ (l : List α), (l.filterMap f).Nodup →
    ∀ a ∈ l, ∀ b ∈ l, ∀ k, f a = some k → f b = some k → a = b
  | [], _, a, ha, _, _, _, _, _ => by cases ha
  | x :: xs, hnd, a, ha, b, hb, k, hfa, hfb => by
    have hmem : ∀ y ∈ xs, f y = some k → k ∈ xs.filterMap f := fun y hy hfy => List.mem_filterMap.2 ⟨y, hy, hfy⟩
    cases hfx : f x with
    | none =>
      rw [List.filterMap_cons_none hfx] at hnd
      have hax : a ≠ x := fun h => by rw [h, hfx] at hfa; cases hfa
      have hbx : b ≠ x := fun h => by rw [h, hfx] at hfb; cases hfb
      exact eq_of_nodup_filterMap f xs hnd a ((List.mem_cons.1 ha).resolve_left hax) b ((List.mem_cons.1 hb).resolve_left hbx) k hfa hfb
    | some c =>
      rw [List.filterMap_cons_some hfx, List.nodup_cons] at hnd
      rcases List.mem_cons.1 ha with rfl | ha' <;> rcases List.mem_cons.1 hb with rfl | hb'
      · rfl
      · rw [hfx] at hfa; injection hfa with hfa; subst hfa
        exact absurd (hmem b hb' hfb) hnd.1
      · rw [hfx] at hfb; injection hfb with hfb; subst hfb
        exact absurd (hmem a ha' hfa) hnd.1
      · exact eq_of_nodup_filterMap f xs hnd.2 a ha' b hb' k hfa hfb

theorem range'_nodup (s n : Nat) : (List.range' s n).Nodup := by
  rw [List.Nodup, List.pairwise_iff_getElem]
  intro i j hi hj hij
  simp only [List.getElem_range', Nat.one_mul]
  omega

/-- **In a clone different keys hold different cells**, all below the new `next` -/
theorem recell_cell_inj (n : Node) (hS : Node.Shp n) (P Q : List Part) (hP : wfParts P = true) (hQ : wfParts Q = true)
    (i j : Info) (k : Nat) (hi : Node.find (Node.recell n 0).1 P = some i) (hj : Node.find (Node.recell n 0).1 Q = some j)
    (hci : i.cell = some k) (hcj : j.cell = some k) : P = Q ∧ k < (Node.recell n 0).2 := by
  have hS' := (recell_Shp n 0).2 hS
  obtain ⟨r1, hr1, hn1, hi1⟩ := (Node.find_iff _ P i hS' hP).1 hi
  obtain ⟨r2, hr2, hn2, hi2⟩ := (Node.find_iff _ Q j hS' hQ).1 hj
  obtain ⟨m, hm1, hm2⟩ := Node.recell_cells n 0
  have hnd : ((Node.routes (Node.recell n 0).1).filterMap (fun r => r.info.cell)).Nodup := by
    have := range'_nodup 0 m
    rw [← hm2] at this
    exact this
  have hr : r1 = r2 := eq_of_nodup_filterMap _ _ hnd r1 hr1 r2 hr2 k (by rw [hi1]; exact hci) (by rw [hi2]; exact hcj)
  refine ⟨by rw [← hn1, ← hn2, hr], ?_⟩
  have hk : k ∈ Node.cells (Node.recell n 0).1 := List.mem_filterMap.2 ⟨r1, hr1, by rw [hi1]; exact hci⟩
  rw [hm2, List.mem_range'_1] at hk
  omega

/-- shared stays shared, inline stays inline -/
theorem recell_cell_isSome (n : Node) (P : List Part) (i j : Info) (hi : Node.find (Node.recell n 0).1 P = some i)
    (hj : Node.find n P = some j) : i.cell.isSome = j.cell.isSome ∧ eraseCell i = eraseCell j := by
  have h := recell_find_norm n 0 P
  rw [hi, hj] at h
  simp only [Option.map_some, Option.some.injEq] at h
  have hc : i.cell.map (fun _ => 0) = j.cell.map (fun _ => 0) := by simpa [normCell] using congrArg Info.cell h
  refine ⟨by cases hic : i.cell <;> cases hjc : j.cell <;> simp [hic, hjc] at hc ⊢, ?_⟩
  have ht : i.template = j.template := by simpa [normCell] using congrArg Info.template h
  have hd : i.data = j.data := by simpa [normCell] using congrArg Info.data h
  have he : i.expanded = j.expanded := by simpa [normCell] using congrArg Info.expanded h
  have hde : i.depth = j.depth := by simpa [normCell] using congrArg Info.depth h
  have hl : i.length = j.length := by simpa [normCell] using congrArg Info.length h
  cases i; cases j
  simp only [eraseCell] at *
  simp [ht, hd, he, hde, hl]
