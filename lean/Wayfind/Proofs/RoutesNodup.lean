import Wayfind.Proofs.Unique1

/-! Every marked label path occurs once: the (normalised) keys of `Node.routes` are pairwise different (C15). -/

def rkey (r : Route) : List Part := norm r.parts

/-- which child vector a key leads into (0 = the node's own data) -/
def kcls : List Part → Nat
  | [] => 0
  | .stat _ :: _ => 1
  | .par .dynC _ :: _ => 2
  | .par .dyn _ :: _ => 3
  | [.par .wildC _] => 6
  | [.par .wild _] => 7
  | .par .wildC _ :: _ :: _ => 4
  | .par .wild _ :: _ :: _ => 5

theorem rkey_push_par (k : PKind) (l : Label) (r : Route) : rkey (Route.push (.par k l) r) = .par k l :: rkey r := by
  simp [rkey, Route.push, norm]

theorem rkey_push_stat (a : Bytes) (r : Route) : rkey (Route.push (.stat a) r) = prepend a (rkey r) := by
  simp only [rkey, Route.push, norm, prepend]
  cases norm r.parts with
  | nil => rfl
  | cons p t => cases p <;> rfl

theorem prepend_inj (a : Bytes) : ∀ (K1 K2 : List Part), statsNE K1 → statsNE K2 → prepend a K1 = prepend a K2 → K1 = K2
  | [], [], _, _, _ => rfl
  | [], .par _ _ :: _, _, _, h => by simp [prepend] at h
  | .par _ _ :: _, [], _, _, h => by simp [prepend] at h
  | .par _ _ :: _, .par _ _ :: _, _, _, h => by simpa [prepend] using h
  | .stat b1 :: t1, .stat b2 :: t2, _, _, h => by
    simp only [prepend, List.cons.injEq, Part.stat.injEq, List.append_cancel_left_eq] at h
    rw [h.1, h.2]
  | .stat b :: t, [], h1, _, h => by
    simp only [prepend, List.cons.injEq, Part.stat.injEq] at h
    have : b = [] := by simpa using h.1
    exact absurd this h1.1
  | .stat b :: t, .par _ _ :: _, h1, _, h => by
    simp only [prepend, List.cons.injEq, Part.stat.injEq] at h
    have : b = [] := by simpa using h.1
    exact absurd this h1.1
  | [], .stat b :: t, _, h2, h => by
    simp only [prepend, List.cons.injEq, Part.stat.injEq] at h
    have : b = [] := by simpa using h.1.symm
    exact absurd this h2.1
  | .par _ _ :: _, .stat b :: t, _, h2, h => by
    simp only [prepend, List.cons.injEq, Part.stat.injEq] at h
    have : b = [] := by simpa using h.1.symm
    exact absurd this h2.1

theorem prepend_head (a : Bytes) (ha : a ≠ []) : ∀ (K : List Part), ∃ p t, prepend a K = .stat p :: t ∧ p.head? = a.head?
  | [] => ⟨a, [], rfl, rfl⟩
  | .par k l :: t => ⟨a, _, rfl, rfl⟩
  | .stat b :: t => ⟨a ++ b, t, rfl, head_append_ne ha⟩

def KeysNodup (rs : List Route) : Prop := rs.Pairwise (fun a b => rkey a ≠ rkey b)

theorem keysNodup_map_push (p : Part) (rs : List Route) (hS : ∀ r ∈ rs, statsNE (rkey r)) (h : KeysNodup rs) :
    KeysNodup (rs.map (Route.push p)) := by
  unfold KeysNodup
  rw [List.pairwise_map]
  refine h.imp_of_mem (fun {a b} ha hb hab e => hab ?_)
  cases p with
  | par k l => simpa [rkey_push_par] using e
  | stat q =>
    rw [rkey_push_stat, rkey_push_stat] at e
    exact prepend_inj q _ _ (hS a ha) (hS b hb) e

theorem rkey_statsNE (n : Node) (hS : Node.Shp n) : ∀ r ∈ Node.routes n, statsNE (rkey r) :=
  fun r hr => norm_statsNE _ (routes_statsNE n hS r hr)

theorem kroutes_parts_ne (mk : Label → Part) : ∀ (v : Kids), ∀ r ∈ Kids.routes mk v, r.parts ≠ []
  | .nil, r, hr => by simp [Kids.routes] at hr
  | .cons l n r', r, hr => by
    simp only [Kids.routes, List.mem_append, List.mem_map] at hr
    rcases hr with ⟨r0, _, rfl⟩ | hr
    · simp [Route.push]
    · exact kroutes_parts_ne mk r' r hr

theorem routes_parts_ne_of_nodata : ∀ (n : Node), n.data = none → ∀ r ∈ Node.routes n, r.parts ≠ []
  | .mk x s dc d wc w ec e ds ws dirty, hx, r, hr => by
    simp only [Node.data] at hx
    subst hx
    rw [routes_eq] at hr
    simp only [dataRoute, List.nil_append, List.mem_append] at hr
    rcases hr with (((((hr | hr) | hr) | hr) | hr) | hr) | hr <;> exact kroutes_parts_ne _ _ r hr

/-- routes through a mid-route wildcard child have at least two parts -/
theorem midRoutes_long (k : PKind) : ∀ (v : Kids), Kids.Shpk v → Kids.All (fun _ n => n.data = none) v →
    ∀ r ∈ Kids.routes (.par k) v, (rkey r).length ≠ 1
  | .nil, _, _, r, hr => by simp [Kids.routes] at hr
  | .cons l n r', hk, hd, r, hr => by
    simp only [Kids.routes, List.mem_append, List.mem_map] at hr
    rcases hr with ⟨r0, hr0, rfl⟩ | hr
    · rw [rkey_push_par]
      have : r0.parts ≠ [] := routes_parts_ne_of_nodata n hd.1 r0 hr0
      have : rkey r0 ≠ [] := fun e => this ((norm_eq_nil _).1 e)
      cases hq : rkey r0 with
      | nil => exact absurd hq this
      | cons _ _ => simp
    · exact midRoutes_long k r' hk.2.2 hd.2 r hr

/-- catch-all vectors: one route per child, `[{*name}]` -/
theorem endRoutes_keysNodup (k : PKind) : ∀ (v : Kids), NodupL v.labels → Kids.leaves v →
    KeysNodup (Kids.routes (.par k) v) ∧ ∀ r ∈ Kids.routes (.par k) v, ∃ l, rkey r = [.par k l] ∧ l ∈ v.labels
  | .nil, _, _ => by simp [Kids.routes, KeysNodup]
  | .cons l n r', hn, hl => by
    simp only [Kids.labels, NodupL, List.pairwise_cons] at hn
    obtain ⟨⟨i, hi⟩, hl'⟩ := hl
    have ih := endRoutes_keysNodup k r' hn.2 hl'
    have hr := (routes_leaf hi).1
    simp only [Kids.routes, hr, List.map_cons, List.map_nil, List.singleton_append]
    constructor
    · unfold KeysNodup
      rw [List.pairwise_cons]
      refine ⟨?_, ih.1⟩
      intro b hb e
      obtain ⟨l', he, hl''⟩ := ih.2 b hb
      rw [he] at e
      simp only [rkey, Route.push, norm, List.cons.injEq, Part.par.injEq, and_true, true_and] at e
      subst e
      exact hn.1 _ hl'' rfl
    · intro r hr'
      rcases List.mem_cons.1 hr' with rfl | hr'
      · exact ⟨l, by simp [rkey, Route.push, norm], by simp [Kids.labels]⟩
      · obtain ⟨l', he, hl''⟩ := ih.2 r hr'
        exact ⟨l', he, by simp [Kids.labels, hl'']⟩

mutual
theorem Node.routes_keysNodup : ∀ (n : Node), Node.Shp n → KeysNodup (Node.routes n)
  | .mk x s dc d wc w ec e ds ws dirty, hS => by
    have hS0 := hS
    simp only [Node.Shp] at hS
    obtain ⟨hs1, hs2, hwcd, hwd, hecl, hel, ndc, nd, nwc, nw, nec, ne, _, _, _, _, ks, kdc, kd, kwc, kw⟩ := hS
    rw [routes_eq]
    have p0 : KeysNodup (dataRoute x) ∧ ∀ r ∈ dataRoute x, kcls (rkey r) = 0 := by
      cases x <;> simp [dataRoute, KeysNodup, rkey, norm, kcls]
    have p1 := Kids.statRoutes_keysNodup s hs1 hs2 ks
    have p2 := Kids.parRoutes_keysNodup .dynC dc ndc kdc
    have p3 := Kids.parRoutes_keysNodup .dyn d nd kd
    have p4 := Kids.parRoutes_keysNodup .wildC wc nwc kwc
    have p5 := Kids.parRoutes_keysNodup .wild w nw kw
    have p6 := endRoutes_keysNodup .wildC ec nec hecl
    have p7 := endRoutes_keysNodup .wild e ne hel
    -- classes of the keys of each piece
    have c1 : ∀ r ∈ Kids.routes statPart s, kcls (rkey r) = 1 := fun r hr => by
      obtain ⟨p, t, he, _⟩ := p1.2 r hr; rw [he]; rfl
    have c2 : ∀ r ∈ Kids.routes (.par .dynC) dc, kcls (rkey r) = 2 := fun r hr => by
      obtain ⟨l, t, he, _⟩ := p2.2 r hr; rw [he]; rfl
    have c3 : ∀ r ∈ Kids.routes (.par .dyn) d, kcls (rkey r) = 3 := fun r hr => by
      obtain ⟨l, t, he, _⟩ := p3.2 r hr; rw [he]; rfl
    have c4 : ∀ r ∈ Kids.routes (.par .wildC) wc, kcls (rkey r) = 4 := fun r hr => by
      obtain ⟨l, t, he, _⟩ := p4.2 r hr
      have hne := midRoutes_long .wildC wc kwc hwcd r hr
      rw [he] at hne ⊢
      cases t with
      | nil => simp at hne
      | cons _ _ => rfl
    have c5 : ∀ r ∈ Kids.routes (.par .wild) w, kcls (rkey r) = 5 := fun r hr => by
      obtain ⟨l, t, he, _⟩ := p5.2 r hr
      have hne := midRoutes_long .wild w kw hwd r hr
      rw [he] at hne ⊢
      cases t with
      | nil => simp at hne
      | cons _ _ => rfl
    have c6 : ∀ r ∈ Kids.routes (.par .wildC) ec, kcls (rkey r) = 6 := fun r hr => by
      obtain ⟨l, he, _⟩ := p6.2 r hr; rw [he]; rfl
    have c7 : ∀ r ∈ Kids.routes (.par .wild) e, kcls (rkey r) = 7 := fun r hr => by
      obtain ⟨l, he, _⟩ := p7.2 r hr; rw [he]; rfl
    have sep : ∀ {A B : List Route} {a b : Nat}, (∀ r ∈ A, kcls (rkey r) = a) → (∀ r ∈ B, kcls (rkey r) = b) → a ≠ b →
        ∀ x ∈ A, ∀ y ∈ B, rkey x ≠ rkey y := by
      intro A B a b hA hB hab x hx y hy e
      apply hab; rw [← hA x hx, ← hB y hy, e]
    unfold KeysNodup at *
    simp only [List.pairwise_append, List.mem_append]
    refine ⟨⟨⟨⟨⟨⟨⟨p0.1, p1.1, sep p0.2 c1 (by decide)⟩, p2.1, ?_⟩, p3.1, ?_⟩, p4.1, ?_⟩, p5.1, ?_⟩, p6.1, ?_⟩, p7.1, ?_⟩
    · rintro x (hx | hx) y hy
      · exact sep p0.2 c2 (by decide) x hx y hy
      · exact sep c1 c2 (by decide) x hx y hy
    · rintro x ((hx | hx) | hx) y hy
      · exact sep p0.2 c3 (by decide) x hx y hy
      · exact sep c1 c3 (by decide) x hx y hy
      · exact sep c2 c3 (by decide) x hx y hy
    · rintro x (((hx | hx) | hx) | hx) y hy
      · exact sep p0.2 c4 (by decide) x hx y hy
      · exact sep c1 c4 (by decide) x hx y hy
      · exact sep c2 c4 (by decide) x hx y hy
      · exact sep c3 c4 (by decide) x hx y hy
    · rintro x ((((hx | hx) | hx) | hx) | hx) y hy
      · exact sep p0.2 c5 (by decide) x hx y hy
      · exact sep c1 c5 (by decide) x hx y hy
      · exact sep c2 c5 (by decide) x hx y hy
      · exact sep c3 c5 (by decide) x hx y hy
      · exact sep c4 c5 (by decide) x hx y hy
    · rintro x (((((hx | hx) | hx) | hx) | hx) | hx) y hy
      · exact sep p0.2 c6 (by decide) x hx y hy
      · exact sep c1 c6 (by decide) x hx y hy
      · exact sep c2 c6 (by decide) x hx y hy
      · exact sep c3 c6 (by decide) x hx y hy
      · exact sep c4 c6 (by decide) x hx y hy
      · exact sep c5 c6 (by decide) x hx y hy
    · rintro x ((((((hx | hx) | hx) | hx) | hx) | hx) | hx) y hy
      · exact sep p0.2 c7 (by decide) x hx y hy
      · exact sep c1 c7 (by decide) x hx y hy
      · exact sep c2 c7 (by decide) x hx y hy
      · exact sep c3 c7 (by decide) x hx y hy
      · exact sep c4 c7 (by decide) x hx y hy
      · exact sep c5 c7 (by decide) x hx y hy
      · exact sep c6 c7 (by decide) x hx y hy
theorem Kids.statRoutes_keysNodup : ∀ (s : Kids), Kids.All (fun l _ => l.pre ≠ []) s → Kids.distinctHeads s → Kids.Shpk s →
    KeysNodup (Kids.routes statPart s) ∧
    ∀ r ∈ Kids.routes statPart s, ∃ p t, rkey r = .stat p :: t ∧ p.head? ∈ s.heads
  | .nil, _, _, _ => by simp [Kids.routes, KeysNodup]
  | .cons l n r', hne, hd, hk => by
    have ih := Kids.statRoutes_keysNodup r' hne.2 hd.2 hk.2.2
    have ihn := Node.routes_keysNodup n hk.1
    have hhead : ∀ r ∈ (Node.routes n).map (Route.push (statPart l)), ∃ p t, rkey r = .stat p :: t ∧ p.head? = l.pre.head? := by
      intro r hr
      obtain ⟨r0, _, rfl⟩ := List.mem_map.1 hr
      simp only [statPart, rkey_push_stat]
      exact prepend_head l.pre hne.1 _
    constructor
    · unfold KeysNodup
      simp only [Kids.routes, List.pairwise_append]
      refine ⟨keysNodup_map_push _ _ (rkey_statsNE n hk.1) ihn, ih.1, ?_⟩
      intro a ha b hb e
      obtain ⟨p, t, hpa, hph⟩ := hhead a ha
      obtain ⟨q, u, hqb, hqh⟩ := ih.2 b hb
      rw [hpa, hqb] at e
      injection e with e1 _
      injection e1 with e1
      subst e1
      rw [hph] at hqh
      exact (noHead_iff _ r').1 hd.1 hqh
    · intro r hr
      simp only [Kids.routes, List.mem_append] at hr
      rcases hr with hr | hr
      · obtain ⟨p, t, he, hh⟩ := hhead r hr
        exact ⟨p, t, he, by simp [Kids.heads, hh]⟩
      · obtain ⟨p, t, he, hh⟩ := ih.2 r hr
        exact ⟨p, t, he, by simp [Kids.heads, hh]⟩
theorem Kids.parRoutes_keysNodup (k : PKind) : ∀ (v : Kids), NodupL v.labels → Kids.Shpk v →
    KeysNodup (Kids.routes (.par k) v) ∧ ∀ r ∈ Kids.routes (.par k) v, ∃ l t, rkey r = .par k l :: t ∧ l ∈ v.labels
  | .nil, _, _ => by simp [Kids.routes, KeysNodup]
  | .cons l n r', hn, hk => by
    simp only [Kids.labels, NodupL, List.pairwise_cons] at hn
    have ih := Kids.parRoutes_keysNodup k r' hn.2 hk.2.2
    have ihn := Node.routes_keysNodup n hk.1
    constructor
    · unfold KeysNodup
      simp only [Kids.routes, List.pairwise_append]
      refine ⟨keysNodup_map_push _ _ (rkey_statsNE n hk.1) ihn, ih.1, ?_⟩
      intro a ha b hb e
      obtain ⟨r0, _, rfl⟩ := List.mem_map.1 ha
      obtain ⟨l', t, he, hl'⟩ := ih.2 b hb
      rw [rkey_push_par, he] at e
      injection e with e1 _
      injection e1 with _ e1
      subst e1
      exact hn.1 _ hl' rfl
    · intro r hr
      simp only [Kids.routes, List.mem_append] at hr
      rcases hr with hr | hr
      · obtain ⟨r0, _, rfl⟩ := List.mem_map.1 hr
        exact ⟨l, _, rkey_push_par k l r0, by simp [Kids.labels]⟩
      · obtain ⟨l', t, he, hl'⟩ := ih.2 r hr
        exact ⟨l', t, he, by simp [Kids.labels, hl']⟩
end

/-- **Every marked label path occurs once.** -/
theorem routes_keys_nodup (n : Node) (hS : Node.Shp n) : ((Node.routes n).map (fun r => norm r.parts)).Nodup := by
  have := Node.routes_keysNodup n hS
  unfold KeysNodup at this
  rw [List.Nodup, List.pairwise_map]
  exact this

#print axioms routes_keys_nodup
