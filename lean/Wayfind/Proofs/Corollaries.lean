import Wayfind.Proofs.Ext6

/-! routes of a well-shaped tree: well-formed normal forms, one info per key -/

/-- no two parameters in a row, and a parameter is followed by a literal or nothing -/
def noTouch : List Part → Prop
  | [] => True
  | .stat _ :: rest => noTouch rest
  | .par _ _ :: rest => startsStatOrEnd rest ∧ noTouch rest

theorem wfParts_of_norm : ∀ (P : List Part), statsNE P → noTouch P → wfParts (norm P) = true
  | [], _, _ => rfl
  | .par k l :: rest, hs, ht => by
    have ih := wfParts_of_norm rest hs ht.2
    simp only [norm_par]
    cases hn : norm rest with
    | nil => simp [wfParts]
    | cons x xs =>
      rw [hn] at ih
      cases x with
      | stat q => simpa [wfParts] using ih
      | par k' l' =>
        exfalso
        obtain ⟨rest', hp, _⟩ := norm_par_inv hn
        rw [hp] at ht
        exact ht.1
  | .stat a :: rest, hs, ht => by
    have ih := wfParts_of_norm rest hs.2 ht
    have hsn := norm_statsNE rest hs.2
    simp only [norm]
    cases hn : norm rest with
    | nil => simp [wfParts, hs.1]
    | cons x xs =>
      rw [hn] at ih hsn
      cases x with
      | par k l => simp only [wfParts, Bool.and_eq_true]; exact ⟨by simp [hs.1], ih⟩
      | stat q =>
        simp only
        cases xs with
        | nil => simp [wfParts, hs.1]
        | cons y ys =>
          cases y with
          | stat _ => simp [wfParts] at ih
          | par k l =>
            simp only [wfParts, Bool.and_eq_true] at ih ⊢
            exact ⟨by simp [hs.1], ih.2⟩

mutual
theorem routes_noTouch : ∀ (n : Node), Node.Shp n → ∀ r ∈ Node.routes n, noTouch r.parts
  | .mk x s dc d wc w ec e _ _ _, hS, r, hr => by
    simp only [Node.Shp] at hS
    obtain ⟨_, _, _, _, hecl, hel, _, _, _, _, _, _, odc, od, owc, ow, ks, kdc, kd, kwc, kw⟩ := hS
    rw [routes_eq] at hr
    simp only [List.mem_append] at hr
    rcases hr with ((((((h | h) | h) | h) | h) | h) | h) | h
    · cases x <;> simp [dataRoute] at h; subst h; trivial
    · exact kroutes_noTouch_stat s ks r h
    · exact kroutes_noTouch_par .dynC dc kdc odc r h
    · exact kroutes_noTouch_par .dyn d kd od r h
    · exact kroutes_noTouch_par .wildC wc kwc owc r h
    · exact kroutes_noTouch_par .wild w kw ow r h
    · obtain ⟨l, hp⟩ := mem_kids_routes_leaves _ ec hecl r h; rw [hp]; simp [noTouch, startsStatOrEnd]
    · obtain ⟨l, hp⟩ := mem_kids_routes_leaves _ e hel r h; rw [hp]; simp [noTouch, startsStatOrEnd]
theorem kroutes_noTouch_stat : ∀ (ks : Kids), Kids.Shpk ks → ∀ r ∈ Kids.routes statPart ks, noTouch r.parts
  | .nil, _, r, hr => by simp [Kids.routes] at hr
  | .cons l n ks, hS, r, hr => by
    simp only [Kids.routes, List.mem_append, List.mem_map] at hr
    rcases hr with ⟨r0, hr0, rfl⟩ | h
    · simp only [Route.push, statPart, noTouch]; exact routes_noTouch n hS.1 r0 hr0
    · exact kroutes_noTouch_stat ks hS.2.2 r h
theorem kroutes_noTouch_par (k : PKind) : ∀ (ks : Kids), Kids.Shpk ks → Kids.All (fun _ n => n.onlyStatic) ks →
    ∀ r ∈ Kids.routes (.par k) ks, noTouch r.parts
  | .nil, _, _, r, hr => by simp [Kids.routes] at hr
  | .cons l n ks, hS, hO, r, hr => by
    simp only [Kids.routes, List.mem_append, List.mem_map] at hr
    rcases hr with ⟨r0, hr0, rfl⟩ | h
    · simp only [Route.push, noTouch]
      refine ⟨?_, routes_noTouch n hS.1 r0 hr0⟩
      -- a route of a node with only static children starts with a literal or is empty
      cases n with
      | mk x s dc d wc w ec e ds ws dirty =>
        have ho := hO.1
        simp only [Node.onlyStatic] at ho
        obtain ⟨rfl, rfl, rfl, rfl, rfl, rfl⟩ := ho
        rw [routes_eq] at hr0
        simp only [Kids.routes, List.append_nil, List.mem_append] at hr0
        rcases hr0 with h | h
        · cases x <;> simp [dataRoute] at h; subst h; trivial
        · obtain ⟨l', r1, rfl⟩ := mem_kids_routes _ s r0 h
          simp [Route.push, statPart, startsStatOrEnd]
    · exact kroutes_noTouch_par k ks hS.2.2 hO.2 r h
end

theorem routes_norm_wf (n : Node) (hS : Node.Shp n) (r : Route) (hr : r ∈ Node.routes n) : wfParts (norm r.parts) = true :=
  wfParts_of_norm _ (routes_statsNE n hS r hr) (routes_noTouch n hS r hr)

theorem routes_SNE (n : Node) (hS : Node.Shp n) : SNE (Node.routes n) := routes_statsNE n hS

theorem routes_Fun (n : Node) (hS : Node.Shp n) : Fun (Node.routes n) := by
  intro P i j h1 h2
  have hwf : wfParts P = true := by
    obtain ⟨r, hr, hn, _⟩ := h1
    rw [← hn]; exact routes_norm_wf n hS r hr
  have e1 := (Node.find_iff n P i hS hwf).2 h1
  have e2 := (Node.find_iff n P j hS hwf).2 h2
  rw [e1] at e2
  exact Option.some.inj e2

/-- **C05, search half (tree layer).** Two reachable trees that hold the same routes — up to how literal text is
    split across nodes, in whatever order and with whatever flags and dirty marks their histories left — answer
    every search identically, for every constraint environment. -/
theorem search_same_routes (env : Env) (t1 t2 : Node) (h1 : Good3 t1) (h2 : Good3 t2)
    (hsame : ∀ P i, Mem (Node.routes t1) P i ↔ Mem (Node.routes t2) P i) (path : Bytes) :
    Node.search env t1 path [] = Node.search env t2 path [] := by
  rw [Node.search_eq_refWalk env t1 (TSany_of_Shp_Srt _ h1.1 h1.2.1) h1.2.2 path [] path.length (Nat.le_refl _),
    Node.search_eq_refWalk env t2 (TSany_of_Shp_Srt _ h2.1 h2.2.1) h2.2.2 path [] path.length (Nat.le_refl _)]
  exact refWalk_ext env _ _ _ path [] (Nat.le_refl _) (routes_SNE t1 h1.1) (routes_SNE t2 h2.1)
    (routes_Fun t1 h1.1) (routes_Fun t2 h2.1)
    ⟨fun P i h => (hsame P i).1 h, fun P i h => Or.inl ((hsame P i).2 h)⟩

/-- **C06 (tree layer).** If a reachable tree `t2` holds all routes of a reachable tree `t1` and every additional
    route does not fit `path`, the search result for `path` is the same on both: adding (or, read backwards,
    removing) templates that do not fit a path cannot change how that path is routed. -/
theorem search_irrelevant (env : Env) (t1 t2 : Node) (h1 : Good3 t1) (h2 : Good3 t2) (path : Bytes)
    (hsub : ∀ P i, Mem (Node.routes t1) P i → Mem (Node.routes t2) P i)
    (hextra : ∀ P i, Mem (Node.routes t2) P i → Mem (Node.routes t1) P i ∨ ¬ FitsN env P path) :
    Node.search env t1 path [] = Node.search env t2 path [] := by
  rw [Node.search_eq_refWalk env t1 (TSany_of_Shp_Srt _ h1.1 h1.2.1) h1.2.2 path [] path.length (Nat.le_refl _),
    Node.search_eq_refWalk env t2 (TSany_of_Shp_Srt _ h2.1 h2.2.1) h2.2.2 path [] path.length (Nat.le_refl _)]
  exact refWalk_ext env _ _ _ path [] (Nat.le_refl _) (routes_SNE t1 h1.1) (routes_SNE t2 h2.1)
    (routes_Fun t1 h1.1) (routes_Fun t2 h2.1) ⟨hsub, hextra⟩

#print axioms search_same_routes
#print axioms search_irrelevant
