import Wayfind.Proofs.ParseBounds
import Wayfind.Spec.Fault

/-! the faults `parse_parameter_part` reports are really there: helper facts about the brace group -/

theorem braceEnd_at : ∀ (after : Bytes) (c idx n : Nat), braceEnd after c idx = some n → after[n - idx]? = some 125
  | [], _, _, _, h => by simp [braceEnd] at h
  | b :: rest, c, idx, n, h => by
    simp only [braceEnd] at h
    split at h
    · have hge := braceEnd_ge rest _ _ n h
      have := braceEnd_at rest _ _ n h
      have e : n - idx = (n - (idx + 1)) + 1 := by omega
      rw [e, List.getElem?_cons_succ]; exact this
    · split at h
      · rename_i h125
        split at h
        · injection h with h; subst h; simp [h125]
        · have hge := braceEnd_ge rest _ _ n h
          have := braceEnd_at rest _ _ n h
          have e : n - idx = (n - (idx + 1)) + 1 := by omega
          rw [e, List.getElem?_cons_succ]; exact this
      · have hge := braceEnd_ge rest _ _ n h
        have := braceEnd_at rest _ _ n h
        have e : n - idx = (n - (idx + 1)) + 1 := by omega
        rw [e, List.getElem?_cons_succ]; exact this

theorem openUnbalanced_go_of_none : ∀ (after : Bytes) (c idx : Nat), 1 ≤ c → braceEnd after c idx = none →
    openUnbalanced.go after c = true
  | [], _, _, _, _ => by simp [openUnbalanced.go]
  | b :: rest, c, idx, hc, h => by
    simp only [braceEnd] at h
    simp only [openUnbalanced.go]
    split at h
    · rename_i h123
      simp only [h123, ite_true]
      exact openUnbalanced_go_of_none rest _ _ (by omega) h
    · rename_i h123
      simp only [h123, ite_false]
      split at h
      · rename_i h125
        simp only [h125, ite_true]
        split at h
        · cases h
        · rename_i hc1
          simp only [hc1, ite_false]
          exact openUnbalanced_go_of_none rest _ _ (by omega) h
      · rename_i h125
        simp only [h125, ite_false]
        exact openUnbalanced_go_of_none rest _ _ hc h

/-- positions of the text from `cursor` on -/
theorem drop_getElem? (raw : Bytes) (cursor k : Nat) : (raw.drop cursor)[k]? = raw[cursor + k]? := by
  simp [List.getElem?_drop]

theorem closeIdx_eq_braceEnd : ∀ (rest : Bytes) (count idx : Nat), closeIdx rest count idx = braceEnd rest count idx
  | [], _, _ => rfl
  | b :: rest, count, idx => by
    simp only [closeIdx, braceEnd, closeIdx_eq_braceEnd rest]

theorem braceParam_of_end (raw : Bytes) (cursor : Nat) (after : Bytes) (n : Nat)
    (hrest : raw.drop cursor = 123 :: after) (hb : braceEnd after 1 0 = some n) :
    braceParam raw cursor (n + 2) = some (after.take n) := by
  unfold braceParam
  rw [hrest]
  simp [closeIdx_eq_braceEnd, hb]
