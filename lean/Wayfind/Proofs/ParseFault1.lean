import Wayfind.Proofs.ParseBounds
import Wayfind.Spec.Fault

/-! the faults `parse_parameter_part` reports are really there: helper facts about the brace group -/

theorem braceEnd_at : ∀ (after : Bytes) (c idx n : Nat), braceEnd after c idx = some n → after[n - idx]? = some 125
  | [], _, _, _, h => by simp [braceEnd] at h
  | b :: rest, c, idx, n, h => by
    simp only [braceEnd] at h
    split at h
    · have hge := braceEnd_ge rest _ _ n h
      have := braceEnd_at rest _ _ n h
      have e : n - idx = (n - (idx + 1)) + 1 := by omega
      rw [e, List.getElem?_cons_succ]; exact this
    · split at h
      · rename_i h125
        split at h
        · injection h with h; subst h; simp [h125]
        · have hge := braceEnd_ge rest _ _ n h
          have := braceEnd_at rest _ _ n h
          have e : n - idx = (n - (idx + 1)) + 1 := by omega
          rw [e, List.getElem?_cons_succ]; exact this
      · have hge := braceEnd_ge rest _ _ n h
        have := braceEnd_at rest _ _ n h
        have e : n - idx = (n - (idx + 1)) + 1 := by omega
        rw [e, List.getElem?_cons_succ]; exact this

theorem openUnbalanced_go_of_none : ∀ (after : Bytes) (c idx : Nat), 1 ≤ c → braceEnd after c idx = none →
    openUnbalanced.go after c = true
  | [], _, _, _, _ => by simp [openUnbalanced.go]
  | b :: rest, c, idx, hc, h => by
    simp only [braceEnd] at h
    simp only [openUnbalanced.go]
    split at h
    · rename_i h123
      simp only [h123, ite_true]
      exact openUnbalanced_go_of_none rest _ _ (by omega) h
    · rename_i h123
      simp only [h123, ite_false]
      split at h
      · rename_i h125
        simp only [h125, ite_true]
        split at h
        · cases h
        · rename_i hc1
          simp only [hc1, ite_false]
          exact openUnbalanced_go_of_none rest _ _ (by omega) h
      · rename_i h125
        simp only [h125, ite_false]
        exact openUnbalanced_go_of_none rest _ _ hc h

/-- positions of the text from `cursor` on -/
theorem drop_getElem? (raw : Bytes) (cursor k : Nat) : (raw.drop cursor)[k]? = raw[cursor + k]? := by
  simp [List.getElem?_drop]

theorem braceParam_of_end (raw : Bytes) (cursor : Nat) (after : Bytes) (n : Nat)
    (hrest : raw.drop cursor = 123 :: after) (hb : braceEnd after 1 0 = some n) :
    braceParam raw cursor (n + 2) = some (after.take n) := by
  have hlt := braceEnd_lt after 1 0 n hb
  have hat := braceEnd_at after 1 0 n hb
  simp only [Nat.sub_zero] at hat
  have h0 : raw[cursor]? = some 123 := by
    have := drop_getElem? raw cursor 0
    rw [hrest] at this; simpa using this.symm
  have hafter : after = raw.drop (cursor + 1) := by
    have : raw.drop (cursor + 1) = (raw.drop cursor).drop 1 := by rw [List.drop_drop]
    rw [this, hrest]; rfl
  have hlen : cursor + 1 + after.length ≤ raw.length := by
    have := congrArg List.length hrest
    simp only [List.length_drop, List.length_cons] at this
    omega
  have hn : raw[cursor + (n + 2) - 1]? = some 125 := by
    have e : cursor + (n + 2) - 1 = (cursor + 1) + n := by omega
    rw [e, ← drop_getElem? raw (cursor + 1) n, ← hafter]; exact hat
  unfold braceParam
  have c1 : ¬ (n + 2 < 2) := by omega
  have c2 : ¬ (cursor + (n + 2) > raw.length) := by omega
  simp only [decide_eq_true_eq, c1, c2, h0, hn, bne_self_eq_false, Bool.or_self, Bool.false_eq_true, ite_false,
    decide_false, Bool.false_or]
  rw [← hafter]
  simp
