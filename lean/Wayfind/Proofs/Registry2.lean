import Wayfind.Proofs.Registry1
import Wayfind.Proofs.SingleRoute

/-! The registry invariant: the keys of the tree are exactly the part lists of the expansions of the live templates,
each carrying the template's text and data and its own expansion text. -/

structure LiveT where
  template : Bytes
  data : Nat
  exps : List (Bytes × List Part)

/-- what a stored value must say about expansion `e` of live template `lt` -/
def infoOK (lt : LiveT) (e : Bytes × List Part) (i : Info) : Prop :=
  i.template = lt.template ∧ i.data = lt.data ∧ i.expanded = (if lt.exps.length > 1 then some e.1 else none) ∧
  i.depth = countSlash e.1 ∧ i.length = e.1.length

structure Reg (root : Node) (L : List LiveT) : Prop where
  shp : Node.Shp root
  parsed : ∀ lt ∈ L, parseTemplates lt.template = .ok lt.exps
  sound : ∀ P i, wfParts P = true → Node.find root P = some i → ∃ lt ∈ L, ∃ e ∈ lt.exps, e.2 = P ∧ infoOK lt e i
  complete : ∀ lt ∈ L, ∀ e ∈ lt.exps, ∃ i, Node.find root e.2 = some i ∧ infoOK lt e i

/-- the expansions of a template have pairwise different part lists (false e.g. for `((/a))`, `(/a)(/a)`) -/
def DistinctExps (ts : List (Bytes × List Part)) : Prop := (ts.map (·.2)).Nodup

theorem Reg.empty : Reg Node.empty [] where
  shp := good3_empty.1
  parsed := by intro lt h; cases h
  sound := by intro P i _ h; rw [find_empty_none] at h; cases h
  complete := by intro lt h; cases h

theorem eq_of_nodup_map {α β} (f : α → β) : ∀ (l : List α), (l.map f).Nodup → ∀ a ∈ l, ∀ b ∈ l, f a = f b → a = b
  | [], _, a, ha, _, _, _ => by cases ha
  | x :: xs, hnd, a, ha, b, hb, hab => by
    simp only [List.map_cons, List.nodup_cons] at hnd
    rcases List.mem_cons.1 ha with rfl | ha' <;> rcases List.mem_cons.1 hb with rfl | hb'
    · rfl
    · exact absurd (hab ▸ List.mem_map.2 ⟨b, hb', rfl⟩) hnd.1
    · exact absurd (hab ▸ List.mem_map.2 ⟨a, ha', rfl⟩) hnd.1
    · exact eq_of_nodup_map f xs hnd.2 a ha' b hb' hab

/-- the value stored for expansion `e` by a successful insert -/
def insInfo (t : Bytes) (d cell : Nat) (ts : List (Bytes × List Part)) (e : Bytes × List Part) : Info :=
  match ts with
  | [_] => inlineInfo t d e.1
  | _ => sharedInfo t d cell e

theorem insertOk_root_eq (r : Router) (t : Bytes) (d : Nat) (ts : List (Bytes × List Part)) :
    (r.insertOk t d ts).root =
      Node.optimize ((ts.map (fun e => (e.2, insInfo t d r.next ts e))).foldl (fun n x => Node.insert n x.1 x.2) r.root) := by
  unfold Router.insertOk
  split
  · rfl
  · rename_i hne
    simp only []
    rw [insertShared_fst]
    congr 2
    apply List.map_congr_left
    intro e _
    unfold insInfo
    split
    · exact (hne _ _ rfl).elim
    · rfl

theorem insInfo_ok (t : Bytes) (d cell : Nat) (ts : List (Bytes × List Part)) (e : Bytes × List Part) (he : e ∈ ts) :
    infoOK ⟨t, d, ts⟩ e (insInfo t d cell ts e) := by
  unfold insInfo
  split
  · exact ⟨rfl, rfl, by simp [inlineInfo], rfl, rfl⟩
  · rename_i hne
    have hlen : ts.length > 1 := by
      cases ts with
      | nil => cases he
      | cons a rest => cases rest with
        | nil => exact (hne a rfl).elim
        | cons b rest' => simp
    exact ⟨rfl, rfl, by simp [sharedInfo, hlen], rfl, rfl⟩

theorem conflictsOf_nil {root : Node} {ts : List (Bytes × List Part)} (h : conflictsOf root ts = []) :
    ∀ e ∈ ts, Node.find root e.2 = none := by
  intro e he
  unfold conflictsOf at h
  have := List.filterMap_eq_nil_iff.1 h e he
  cases hf : Node.find root e.2 with
  | none => rfl
  | some i => rw [hf] at this; simp at this

/-- lookups after a successful insert of fresh, pairwise different expansions: the new keys carry the new values,
every other key is untouched -/
theorem insertOk_find {r : Router} {t : Bytes} {d : Nat} {ts : List (Bytes × List Part)} (hS : Node.Shp r.root)
    (hp : parseTemplates t = .ok ts) (hd : DistinctExps ts) (hc : conflictsOf r.root ts = []) :
    Node.Shp (r.insertOk t d ts).root ∧
    ∀ Q, wfParts Q = true → Node.find (r.insertOk t d ts).root Q =
      (match lookupIns (ts.map (fun e => (e.2, insInfo t d r.next ts e))) Q with
       | some i => some i | none => Node.find r.root Q) := by
  have hwf := parse_wf hp
  have hfresh := conflictsOf_nil hc
  have hxs1 : ∀ x ∈ ts.map (fun e => (e.2, insInfo t d r.next ts e)), wfParts x.1 = true := by
    intro x hx
    obtain ⟨e, he, rfl⟩ := List.mem_map.1 hx
    exact hwf e he
  have hxs2 : ((ts.map (fun e => (e.2, insInfo t d r.next ts e))).map (·.1)).Nodup := by
    have : (ts.map (fun e => (e.2, insInfo t d r.next ts e))).map (·.1) = ts.map (·.2) := by simp [List.map_map]
    rw [this]; exact hd
  have hxs3 : ∀ x ∈ ts.map (fun e => (e.2, insInfo t d r.next ts e)), Node.find r.root x.1 = none := by
    intro x hx
    obtain ⟨e, he, rfl⟩ := List.mem_map.1 hx
    exact hfresh e he
  obtain ⟨hS', hfind⟩ := find_foldl_insert _ r.root hS hxs1 hxs2 hxs3
  have hroot := insertOk_root_eq r t d ts
  refine ⟨by rw [hroot]; exact Node.optimize_Shp _ hS', ?_⟩
  intro Q hQ
  rw [hroot, Node.find_optimize _ Q hS']
  exact hfind Q hQ

theorem lookupIns_new_key {t : Bytes} {d cell : Nat} {ts : List (Bytes × List Part)} (hd : DistinctExps ts) :
    ∀ e ∈ ts, lookupIns (ts.map (fun e => (e.2, insInfo t d cell ts e))) e.2 = some (insInfo t d cell ts e) := by
  intro e he
  unfold lookupIns
  cases hf : (ts.map (fun e => (e.2, insInfo t d cell ts e))).find? (fun x => x.1 == e.2) with
  | none =>
    have := List.find?_eq_none.1 hf (e.2, insInfo t d cell ts e) (List.mem_map.2 ⟨e, he, rfl⟩)
    simp at this
  | some x =>
    have hx := List.mem_of_find?_eq_some hf
    have hk : x.1 = e.2 := by simpa using List.find?_some hf
    obtain ⟨e', he', rfl⟩ := List.mem_map.1 hx
    have : e' = e := eq_of_nodup_map (fun (x : Bytes × List Part) => x.2) ts (show (ts.map (fun x => x.2)).Nodup from hd) e' he' e he hk
    subst this; rfl

theorem lookupIns_some_key {t : Bytes} {d cell : Nat} {ts : List (Bytes × List Part)} {Q : List Part} {j : Info}
    (h : lookupIns (ts.map (fun e => (e.2, insInfo t d cell ts e))) Q = some j) :
    ∃ e ∈ ts, e.2 = Q ∧ j = insInfo t d cell ts e := by
  unfold lookupIns at h
  cases hff : (ts.map (fun e => (e.2, insInfo t d cell ts e))).find? (fun x => x.1 == Q) with
  | none => rw [hff] at h; cases h
  | some x =>
    rw [hff] at h
    simp only [Option.map_some, Option.some.injEq] at h
    have hx := List.mem_of_find?_eq_some hff
    have hk : x.1 = Q := by simpa using List.find?_some hff
    obtain ⟨e, he, rfl⟩ := List.mem_map.1 hx
    exact ⟨e, he, hk, h.symm⟩

/-- **insert step.** A successful insert of a template whose expansions are pairwise different adds exactly that
template to the registry. -/
theorem Reg.insert {r r' : Router} {L : List LiveT} {t : Bytes} {d : Nat} (h : Reg r.root L)
    (hi : r.insert t d = .ok r') (ts : List (Bytes × List Part)) (hp : parseTemplates t = .ok ts) (hd : DistinctExps ts) :
    Reg r'.root (L ++ [⟨t, d, ts⟩]) := by
  obtain ⟨ts', hp', _, hc, rfl⟩ := (Router.insert_ok_iff r r' t d).1 hi
  rw [hp] at hp'; injection hp' with hp'; subst hp'
  have hwf := parse_wf hp
  have hfresh := conflictsOf_nil hc
  let xs := ts.map (fun e => (e.2, insInfo t d r.next ts e))
  have hxs1 : ∀ x ∈ xs, wfParts x.1 = true := by
    intro x hx
    obtain ⟨e, he, rfl⟩ := List.mem_map.1 hx
    exact hwf e he
  have hxs2 : (xs.map (·.1)).Nodup := by
    have : xs.map (·.1) = ts.map (·.2) := by simp [xs, List.map_map]
    rw [this]; exact hd
  have hxs3 : ∀ x ∈ xs, Node.find r.root x.1 = none := by
    intro x hx
    obtain ⟨e, he, rfl⟩ := List.mem_map.1 hx
    exact hfresh e he
  obtain ⟨hS', hfind⟩ := find_foldl_insert xs r.root h.shp hxs1 hxs2 hxs3
  have hroot := insertOk_root_eq r t d ts
  have hfind' : ∀ Q, wfParts Q = true → Node.find (r.insertOk t d ts).root Q =
      (match lookupIns xs Q with | some i => some i | none => Node.find r.root Q) := by
    intro Q hQ
    rw [hroot, Node.find_optimize _ Q hS']
    exact hfind Q hQ
  have hlook : ∀ e ∈ ts, lookupIns xs e.2 = some (insInfo t d r.next ts e) := by
    intro e he
    unfold lookupIns
    cases hf : xs.find? (fun x => x.1 == e.2) with
    | none =>
      have := List.find?_eq_none.1 hf (e.2, insInfo t d r.next ts e) (List.mem_map.2 ⟨e, he, rfl⟩)
      simp at this
    | some x =>
      have hx := List.mem_of_find?_eq_some hf
      have hk : x.1 = e.2 := by simpa using List.find?_some hf
      obtain ⟨e', he', rfl⟩ := List.mem_map.1 hx
      -- distinct part lists: e' = e
      have : e' = e := by
        exact eq_of_nodup_map (fun (x : Bytes × List Part) => x.2) ts (show (ts.map (fun x => x.2)).Nodup from hd) e' he' e he hk
      subst this; rfl
  refine ⟨by rw [hroot]; exact Node.optimize_Shp _ hS', ?_, ?_, ?_⟩
  · intro lt hlt
    rcases List.mem_append.1 hlt with hlt | hlt
    · exact h.parsed lt hlt
    · simp only [List.mem_singleton] at hlt; subst hlt; exact hp
  · intro P i hP hf
    rw [hfind' P hP] at hf
    cases hl : lookupIns xs P with
    | some j =>
      rw [hl] at hf
      simp only [Option.some.injEq] at hf
      subst hf
      unfold lookupIns at hl
      cases hff : xs.find? (fun x => x.1 == P) with
      | none => rw [hff] at hl; cases hl
      | some x =>
        rw [hff] at hl
        simp only [Option.map_some, Option.some.injEq] at hl
        have hx := List.mem_of_find?_eq_some hff
        have hk : x.1 = P := by simpa using List.find?_some hff
        obtain ⟨e, he, rfl⟩ := List.mem_map.1 hx
        exact ⟨⟨t, d, ts⟩, by simp, e, he, hk, by rw [← hl]; exact insInfo_ok t d r.next ts e he⟩
    | none =>
      rw [hl] at hf
      obtain ⟨lt, hlt, e, he, hk, hok⟩ := h.sound P i hP hf
      exact ⟨lt, List.mem_append_left _ hlt, e, he, hk, hok⟩
  · intro lt hlt e he
    rcases List.mem_append.1 hlt with hlt | hlt
    · obtain ⟨i, hf, hok⟩ := h.complete lt hlt e he
      refine ⟨i, ?_, hok⟩
      have hwfe : wfParts e.2 = true := parse_wf (h.parsed lt hlt) e he
      rw [hfind' e.2 hwfe]
      have : lookupIns xs e.2 = none := by
        apply lookupIns_none_of_not_mem
        intro hmem
        obtain ⟨x, hx, hxe⟩ := List.mem_map.1 hmem
        have := hxs3 x hx
        rw [hxe, hf] at this; cases this
      rw [this]; exact hf
    · simp only [List.mem_singleton] at hlt; subst hlt
      refine ⟨insInfo t d r.next ts e, ?_, insInfo_ok t d r.next ts e he⟩
      rw [hfind' e.2 (hwf e he), hlook e he]
