import Wayfind.Proofs.Registry1
import Wayfind.Proofs.SingleRoute

/-! The registry invariant: the keys of the tree are exactly the part lists of the expansions of the live templates,
each carrying the template's text and data and its own expansion text. -/

structure LiveT where
  template : Bytes
  data : Nat
  exps : List (Bytes × List Part)

/-- the last expansion with parts `Q` -/
def pickLast (Q : List Part) : List (Bytes × List Part) → Option (Bytes × List Part)
  | [] => none
  | e :: rest => match pickLast Q rest with | some x => some x | none => if e.2 = Q then some e else none

/-- the expansion whose value ends up stored under key `Q` when a template's expansions are inserted in order:
the last one with these parts — for a catch-all key the first one (`insert_end_wildcard*` keep what is there).
Different expansions of one template can have the same parts (`(/a)(/a)`, `((/a))`, `(/a)(/\a)`). -/
def pick (Q : List Part) (ts : List (Bytes × List Part)) : Option (Bytes × List Part) :=
  if catchAllEnd Q then ts.find? (fun e => e.2 == Q) else pickLast Q ts

theorem pickLast_mem (Q : List Part) : ∀ (ts : List (Bytes × List Part)) (e : Bytes × List Part), pickLast Q ts = some e → e ∈ ts ∧ e.2 = Q
  | [], _, h => by cases h
  | x :: rest, e, h => by
    simp only [pickLast] at h
    cases hr : pickLast Q rest with
    | some y =>
      rw [hr] at h; simp only [Option.some.injEq] at h; subst h
      have := pickLast_mem Q rest y hr
      exact ⟨List.mem_cons_of_mem _ this.1, this.2⟩
    | none =>
      rw [hr] at h
      simp only at h
      split at h
      · rename_i hx; injection h with h; subst h; exact ⟨by simp, hx⟩
      · cases h

theorem pickLast_none (Q : List Part) : ∀ (ts : List (Bytes × List Part)), pickLast Q ts = none → ∀ e ∈ ts, e.2 ≠ Q
  | [], _, e, he => by cases he
  | x :: rest, h, e, he => by
    simp only [pickLast] at h
    cases hr : pickLast Q rest with
    | some y => rw [hr] at h; cases h
    | none =>
      rw [hr] at h
      simp only at h
      rcases List.mem_cons.1 he with rfl | he'
      · intro hx; simp [hx] at h
      · exact pickLast_none Q rest hr e he'

theorem pick_mem {Q : List Part} {ts : List (Bytes × List Part)} {e : Bytes × List Part} (h : pick Q ts = some e) :
    e ∈ ts ∧ e.2 = Q := by
  unfold pick at h
  split at h
  · exact ⟨List.mem_of_find?_eq_some h, by simpa using List.find?_some h⟩
  · exact pickLast_mem Q ts e h

theorem pick_of_mem {ts : List (Bytes × List Part)} {e : Bytes × List Part} (he : e ∈ ts) : ∃ e', pick e.2 ts = some e' := by
  unfold pick
  split
  · cases hf : ts.find? (fun x => x.2 == e.2) with
    | some x => exact ⟨x, rfl⟩
    | none => have := List.find?_eq_none.1 hf e he; simp at this
  · cases hf : pickLast e.2 ts with
    | some x => exact ⟨x, rfl⟩
    | none => exact absurd rfl (pickLast_none e.2 ts hf e he)

theorem pick_none {Q : List Part} {ts : List (Bytes × List Part)} (h : pick Q ts = none) : ∀ e ∈ ts, e.2 ≠ Q := by
  intro e he hq
  obtain ⟨e', he'⟩ := pick_of_mem he
  rw [hq, h] at he'; cases he'

/-- what a stored value must say about expansion `e` of live template `lt`: template and data of `lt`, and the text,
depth and length of the expansion of `lt` that owns the key `e.2` -/
def infoOK (lt : LiveT) (e : Bytes × List Part) (i : Info) : Prop :=
  i.template = lt.template ∧ i.data = lt.data ∧ ∃ e', pick e.2 lt.exps = some e' ∧
  i.expanded = (if lt.exps.length > 1 then some e'.1 else none) ∧
  i.depth = countSlash e'.1 ∧ i.length = e'.1.length

structure Reg (root : Node) (L : List LiveT) : Prop where
  shp : Node.Shp root
  parsed : ∀ lt ∈ L, parseTemplates lt.template = .ok lt.exps
  sound : ∀ P i, wfParts P = true → Node.find root P = some i → ∃ lt ∈ L, ∃ e ∈ lt.exps, e.2 = P ∧ infoOK lt e i
  complete : ∀ lt ∈ L, ∀ e ∈ lt.exps, ∃ i, Node.find root e.2 = some i ∧ infoOK lt e i

/-- the expansions of a template have pairwise different part lists (false e.g. for `((/a))`, `(/a)(/a)`) -/
def DistinctExps (ts : List (Bytes × List Part)) : Prop := (ts.map (·.2)).Nodup

theorem Reg.empty : Reg Node.empty [] where
  shp := good3_empty.1
  parsed := by intro lt h; cases h
  sound := by intro P i _ h; rw [find_empty_none] at h; cases h
  complete := by intro lt h; cases h

theorem eq_of_nodup_map {α β} (f : α → β) : ∀ (l : List α), (l.map f).Nodup → ∀ a ∈ l, ∀ b ∈ l, f a = f b → a = b
  | [], _, a, ha, _, _, _ => by cases ha
  | x :: xs, hnd, a, ha, b, hb, hab => by
    simp only [List.map_cons, List.nodup_cons] at hnd
    rcases List.mem_cons.1 ha with rfl | ha' <;> rcases List.mem_cons.1 hb with rfl | hb'
    · rfl
    · exact absurd (hab ▸ List.mem_map.2 ⟨b, hb', rfl⟩) hnd.1
    · exact absurd (hab ▸ List.mem_map.2 ⟨a, ha', rfl⟩) hnd.1
    · exact eq_of_nodup_map f xs hnd.2 a ha' b hb' hab

/-- the value stored for expansion `e` by a successful insert -/
def insInfo (t : Bytes) (d cell : Nat) (ts : List (Bytes × List Part)) (e : Bytes × List Part) : Info :=
  match ts with
  | [_] => inlineInfo t d e.1
  | _ => sharedInfo t d cell e

theorem insertOk_root_eq (r : Router) (t : Bytes) (d : Nat) (ts : List (Bytes × List Part)) :
    (r.insertOk t d ts).root =
      Node.optimize ((ts.map (fun e => (e.2, insInfo t d r.next ts e))).foldl (fun n x => Node.insert n x.1 x.2) r.root) := by
  unfold Router.insertOk
  split
  · rfl
  · rename_i hne
    simp only []
    rw [insertShared_fst]
    congr 2
    apply List.map_congr_left
    intro e _
    unfold insInfo
    split
    · exact (hne _ _ rfl).elim
    · rfl

theorem insInfo_ok (t : Bytes) (d cell : Nat) (ts : List (Bytes × List Part)) (e e' : Bytes × List Part)
    (hpk : pick e.2 ts = some e') : infoOK ⟨t, d, ts⟩ e (insInfo t d cell ts e') := by
  have he' := (pick_mem hpk).1
  unfold insInfo
  split
  · exact ⟨rfl, rfl, e', hpk, by simp [inlineInfo], rfl, rfl⟩
  · rename_i hne
    have hlen : ts.length > 1 := by
      cases ts with
      | nil => cases he'
      | cons a rest => cases rest with
        | nil => exact (hne a rfl).elim
        | cons b rest' => simp
    exact ⟨rfl, rfl, e', hpk, by simp [sharedInfo, hlen], rfl, rfl⟩

theorem conflictsOf_nil {root : Node} {ts : List (Bytes × List Part)} (h : conflictsOf root ts = []) :
    ∀ e ∈ ts, Node.find root e.2 = none := by
  intro e he
  unfold conflictsOf at h
  have := List.filterMap_eq_nil_iff.1 h e he
  cases hf : Node.find root e.2 with
  | none => rfl
  | some i => rw [hf] at this; simp at this

/-- the fold over the inserted routes, in terms of `pick` -/
theorem insVal_map (f : Bytes × List Part → Info) (Q : List Part) : ∀ (ts : List (Bytes × List Part)) (old : Option Info),
    insVal Q (ts.map (fun e => (e.2, f e))) old =
      if catchAllEnd Q then (match old with | some v => some v | none => (ts.find? (fun e => e.2 == Q)).map f)
      else (match pickLast Q ts with | some x => some (f x) | none => old)
  | [], old => by cases old <;> simp [insVal, pickLast]
  | e :: rest, old => by
    simp only [List.map_cons, insVal]
    rw [insVal_map f Q rest]
    by_cases hc : catchAllEnd Q = true
    · simp only [hc, ite_true]
      by_cases he : e.2 = Q
      · simp only [he, ite_true, keepOld, hc]
        cases old <;> simp [he]
      · have : (e.2 == Q) = false := by simpa using he
        simp only [he, ite_false]
        cases old <;> simp [List.find?_cons, this]
    · simp only [hc, Bool.false_eq_true, ite_false, pickLast]
      cases hr : pickLast Q rest with
      | some x => rfl
      | none =>
        by_cases he : e.2 = Q
        · simp [he, keepOld, hc]
        · simp [he]

theorem lookupIns_map (f : Bytes × List Part → Info) (Q : List Part) (ts : List (Bytes × List Part)) :
    lookupIns (ts.map (fun e => (e.2, f e))) Q = (pick Q ts).map f := by
  unfold lookupIns pick
  rw [insVal_map]
  split
  · rfl
  · cases pickLast Q ts <;> rfl

/-- lookups after a successful insert of fresh expansions: the new keys carry the new values, every other key is
untouched -/
theorem insertOk_find {r : Router} {t : Bytes} {d : Nat} {ts : List (Bytes × List Part)} (hS : Node.Shp r.root)
    (hp : parseTemplates t = .ok ts) (hc : conflictsOf r.root ts = []) :
    Node.Shp (r.insertOk t d ts).root ∧
    ∀ Q, wfParts Q = true → Node.find (r.insertOk t d ts).root Q =
      (match lookupIns (ts.map (fun e => (e.2, insInfo t d r.next ts e))) Q with
       | some i => some i | none => Node.find r.root Q) := by
  have hwf := parse_wf hp
  have hfresh := conflictsOf_nil hc
  have hxs1 : ∀ x ∈ ts.map (fun e => (e.2, insInfo t d r.next ts e)), wfParts x.1 = true := by
    intro x hx
    obtain ⟨e, he, rfl⟩ := List.mem_map.1 hx
    exact hwf e he
  have hxs3 : ∀ x ∈ ts.map (fun e => (e.2, insInfo t d r.next ts e)), Node.find r.root x.1 = none := by
    intro x hx
    obtain ⟨e, he, rfl⟩ := List.mem_map.1 hx
    exact hfresh e he
  obtain ⟨hS', hfind⟩ := find_foldl_insert _ r.root hS hxs1 hxs3
  have hroot := insertOk_root_eq r t d ts
  refine ⟨by rw [hroot]; exact Node.optimize_Shp _ hS', ?_⟩
  intro Q hQ
  rw [hroot, Node.find_optimize _ Q hS']
  exact hfind Q hQ

/-- the value found under the key of an inserted expansion is the one of the expansion that owns the key -/
theorem lookupIns_new_key {t : Bytes} {d cell : Nat} {ts : List (Bytes × List Part)} :
    ∀ e ∈ ts, ∃ e', pick e.2 ts = some e' ∧
      lookupIns (ts.map (fun e => (e.2, insInfo t d cell ts e))) e.2 = some (insInfo t d cell ts e') := by
  intro e he
  obtain ⟨e', hpk⟩ := pick_of_mem he
  exact ⟨e', hpk, by rw [lookupIns_map, hpk]; rfl⟩

theorem pick_distinct {ts : List (Bytes × List Part)} (hd : DistinctExps ts) {e : Bytes × List Part} (he : e ∈ ts) :
    pick e.2 ts = some e := by
  obtain ⟨e', hpk⟩ := pick_of_mem he
  obtain ⟨he', hk⟩ := pick_mem hpk
  have : e' = e := eq_of_nodup_map (fun (x : Bytes × List Part) => x.2) ts (show (ts.map (fun x => x.2)).Nodup from hd) e' he' e he hk
  rw [hpk, this]

theorem lookupIns_some_key {t : Bytes} {d cell : Nat} {ts : List (Bytes × List Part)} {Q : List Part} {j : Info}
    (h : lookupIns (ts.map (fun e => (e.2, insInfo t d cell ts e))) Q = some j) :
    ∃ e, pick Q ts = some e ∧ j = insInfo t d cell ts e := by
  rw [lookupIns_map] at h
  cases hpk : pick Q ts with
  | none => rw [hpk] at h; cases h
  | some e => rw [hpk] at h; exact ⟨e, rfl, by simpa using h.symm⟩

/-- **insert step.** A successful insert adds exactly that template to the registry. -/
theorem Reg.insert {r r' : Router} {L : List LiveT} {t : Bytes} {d : Nat} (h : Reg r.root L)
    (hi : r.insert t d = .ok r') (ts : List (Bytes × List Part)) (hp : parseTemplates t = .ok ts) :
    Reg r'.root (L ++ [⟨t, d, ts⟩]) := by
  obtain ⟨ts', hp', _, hc, rfl⟩ := (Router.insert_ok_iff r r' t d).1 hi
  rw [hp] at hp'; injection hp' with hp'; subst hp'
  have hwf := parse_wf hp
  have hfresh := conflictsOf_nil hc
  obtain ⟨hS', hfind'⟩ := insertOk_find (d := d) h.shp hp hc
  refine ⟨hS', ?_, ?_, ?_⟩
  · intro lt hlt
    rcases List.mem_append.1 hlt with hlt | hlt
    · exact h.parsed lt hlt
    · simp only [List.mem_singleton] at hlt; subst hlt; exact hp
  · intro P i hP hf
    rw [hfind' P hP] at hf
    cases hl : lookupIns (ts.map (fun e => (e.2, insInfo t d r.next ts e))) P with
    | some j =>
      rw [hl] at hf
      simp only [Option.some.injEq] at hf
      subst hf
      obtain ⟨e, hpk, hj⟩ := lookupIns_some_key hl
      obtain ⟨he, hk⟩ := pick_mem hpk
      refine ⟨⟨t, d, ts⟩, by simp, e, he, hk, ?_⟩
      rw [hj]; exact insInfo_ok t d r.next ts e e (by rw [hk]; exact hpk)
    | none =>
      rw [hl] at hf
      obtain ⟨lt, hlt, e, he, hk, hok⟩ := h.sound P i hP hf
      exact ⟨lt, List.mem_append_left _ hlt, e, he, hk, hok⟩
  · intro lt hlt e he
    rcases List.mem_append.1 hlt with hlt | hlt
    · obtain ⟨i, hf, hok⟩ := h.complete lt hlt e he
      refine ⟨i, ?_, hok⟩
      have hwfe : wfParts e.2 = true := parse_wf (h.parsed lt hlt) e he
      rw [hfind' e.2 hwfe]
      have : lookupIns (ts.map (fun e => (e.2, insInfo t d r.next ts e))) e.2 = none := by
        apply lookupIns_none_of_not_mem
        intro hmem
        obtain ⟨x, hx, hxe⟩ := List.mem_map.1 hmem
        obtain ⟨e', he', rfl⟩ := List.mem_map.1 hx
        have := hfresh e' he'
        simp only at hxe
        rw [hxe, hf] at this; cases this
      rw [this]; exact hf
    · simp only [List.mem_singleton] at hlt; subst hlt
      obtain ⟨e', hpk, hlk⟩ := lookupIns_new_key (t := t) (d := d) (cell := r.next) e he
      refine ⟨insInfo t d r.next ts e', ?_, insInfo_ok t d r.next ts e e' hpk⟩
      rw [hfind' e.2 (hwf e he), hlk]
