import Wayfind.Proofs.Unique3

/-! Uniqueness of the canonical tree, part 4: the induction. -/

theorem bool_eq_of_iff {a b : Bool} (h : a = true ↔ b = true) : a = b := by
  cases a <;> cases b <;> simp_all

theorem head_of_isPrefixOf {a q : Bytes} (ha : a ≠ []) (hp : a.isPrefixOf q = true) : q.head? = a.head? := by
  obtain ⟨t, ht⟩ := List.isPrefixOf_iff_prefix.1 hp
  rw [← ht, head_append_ne ha]

/-- keys found through the first literal child of one vector are found through the first literal child of the other,
when those children start with the same byte -/
theorem stat_cons_through {l1 l2 : Label} {n1 n2 : Node} {r1 r2 : Kids}
    (v1 : StatVec (.cons l1 n1 r1)) (v2 : StatVec (.cons l2 n2 r2)) (hh : l1.pre.head? = l2.pre.head?)
    (H : ∀ q qrest, wfParts (.stat q :: qrest) = true →
      (Kids.findStatic (.cons l1 n1 r1) q qrest).isSome = (Kids.findStatic (.cons l2 n2 r2) q qrest).isSome) :
    ∀ q qrest, wfParts (.stat q :: qrest) = true → Through l1 n1 q qrest → Through l2 n2 q qrest := by
  intro q qrest hwf ⟨hp, hf⟩
  have h := H q qrest hwf
  rw [findStatic_cons_spec l1 n1 r1 q qrest v1.ne.1 v1.dh.1, if_pos hp,
      findStatic_cons_spec l2 n2 r2 q qrest v2.ne.1 v2.dh.1] at h
  by_cases hp2 : l2.pre.isPrefixOf q = true
  · rw [if_pos hp2] at h; exact ⟨hp2, by rw [← h]; exact hf⟩
  · rw [if_neg hp2] at h
    have hq : l2.pre.head? = q.head? := by rw [head_of_isPrefixOf v1.ne.1 hp, hh]
    rw [if_pos hq, hf] at h; cases h

theorem optLt_irrefl (a : Option Byte) : ¬ optLt a a := fun h => optLt_asymm a a h h

theorem SH_head_lt {l : Label} {n : Node} {r : Kids} (h : SH (.cons l n r)) : ∀ b ∈ r.heads, optLt l.pre.head? b := by
  unfold SH at h; simp only [Kids.heads, List.pairwise_cons] at h; exact h.1

theorem SortedL_head_lt {l : Label} {n : Node} {r : Kids} (h : SortedL (Kids.cons l n r).labels) :
    ∀ x ∈ r.labels, Label.lt l x = true := by
  unfold SortedL at h; simp only [Kids.labels, List.pairwise_cons] at h; exact h.1

theorem stat_first_inhabited {l : Label} {n : Node} {r : Kids} (v : StatVec (.cons l n r)) :
    ∃ q qrest, wfParts (.stat q :: qrest) = true ∧ q.head? = l.pre.head? ∧
      (Kids.findStatic (.cons l n r) q qrest).isSome = true := by
  obtain ⟨hc, hr, _⟩ := v.kids.1
  obtain ⟨K, hK, hf, _, _⟩ := Node.inhabited n hc.1 hr
  obtain ⟨q, qrest, he, hp, hfb⟩ := through_of_key l n K hK hf
  refine ⟨q, qrest, by rw [← he]; exact wfParts_prepend _ v.ne.1 _ hK, head_of_isPrefixOf v.ne.1 hp, ?_⟩
  rw [findStatic_cons_spec l n r q qrest v.ne.1 v.dh.1, if_pos hp]; exact hfb

theorem par_first_inhabited {mid : Bool} {l : Label} {n : Node} {r : Kids} (v : ParVec mid (.cons l n r)) :
    ∃ K, wfParts K = true ∧ startsStatOrEnd K ∧ (mid = true → K ≠ []) ∧ (Node.find n K).isSome = true := by
  obtain ⟨hc, hr, ho, hm⟩ := v.kids.1
  obtain ⟨K, hK, hf, hst, hne⟩ := Node.inhabited n hc.1 hr
  exact ⟨K, hK, hst ho, fun h => hne (hm h), hf⟩

theorem wf_par_cons {k : PKind} {l : Label} {K : List Part} (hK : wfParts K = true) (hst : startsStatOrEnd K) :
    wfParts (.par k l :: K) = true := by
  cases K with
  | nil => rfl
  | cons x K => cases x with
    | stat _ => simpa [wfParts] using hK
    | par _ _ => simp [startsStatOrEnd] at hst

mutual
/-- **Two canonical trees with the same keys look the same.** -/
theorem Node.skel_unique : ∀ (n1 n2 : Node), Canon n1 → Canon n2 → KeyEq n1 n2 → Node.skel n1 = Node.skel n2
  | .mk x1 s1 dc1 d1 wc1 w1 ec1 e1 _ _ _, .mk x2 s2 dc2 d2 wc2 w2 ec2 e2 _ _ _, c1, c2, H => by
    obtain ⟨a1, a2, a3, a4, a5, a6, a7, a8, a9⟩ := canon_kids c1
    obtain ⟨b1, b2, b3, b4, b5, b6, b7, b8, b9⟩ := canon_kids c2
    have hx : (x1.map fun _ => dummyInfo) = (x2.map fun _ => dummyInfo) := by
      have := H [] rfl
      simp only [Node.find] at this
      cases x1 <;> cases x2 <;> simp_all
    have hs : Kids.skelS s1 = Kids.skelS s2 := Kids.skel_unique_stat s1 s2 a1 b1 (by
      intro q qrest hwf; simpa [Node.find] using H _ hwf)
    have hdc : Kids.skel dc1 = Kids.skel dc2 := Kids.skel_unique_par false dc1 dc2 a2 b2 (by
      intro l K hK hst _; simpa [Node.find, slotOf] using H (.par .dynC l :: K) (wf_par_cons hK hst))
    have hd : Kids.skel d1 = Kids.skel d2 := Kids.skel_unique_par false d1 d2 a3 b3 (by
      intro l K hK hst _; simpa [Node.find, slotOf] using H (.par .dyn l :: K) (wf_par_cons hK hst))
    have hwc : Kids.skel wc1 = Kids.skel wc2 := Kids.skel_unique_par true wc1 wc2 a4 b4 (by
      intro l K hK hst hne
      have := H (.par .wildC l :: K) (wf_par_cons hK hst)
      simpa only [Node.find, (slotOf_wild_mid (k := .wildC) (hne rfl)).1] using this)
    have hw : Kids.skel w1 = Kids.skel w2 := Kids.skel_unique_par true w1 w2 a5 b5 (by
      intro l K hK hst hne
      have := H (.par .wild l :: K) (wf_par_cons hK hst)
      simpa only [Node.find, (slotOf_wild_mid (k := .wild) (hne rfl)).2] using this)
    have hec : Kids.skel ec1 = Kids.skel ec2 := skel_unique_end ec1 ec2 a6 b6 a7 b7 (by
      intro l; simpa [Node.find, slotOf] using H [.par .wildC l] rfl)
    have he : Kids.skel e1 = Kids.skel e2 := skel_unique_end e1 e2 a8 b8 a9 b9 (by
      intro l; simpa [Node.find, slotOf] using H [.par .wild l] rfl)
    simp only [Node.skel, hx, hs, hdc, hd, hwc, hw, hec, he]
theorem Kids.skel_unique_stat : ∀ (s1 s2 : Kids), StatVec s1 → StatVec s2 →
    (∀ q qrest, wfParts (.stat q :: qrest) = true →
      (Kids.findStatic s1 q qrest).isSome = (Kids.findStatic s2 q qrest).isSome) → Kids.skelS s1 = Kids.skelS s2
  | .nil, .nil, _, _, _ => rfl
  | .nil, .cons l2 n2 r2, _, v2, H => by
    obtain ⟨q, qrest, hwf, _, hf⟩ := stat_first_inhabited v2
    have := H q qrest hwf
    rw [hf] at this; simp [Kids.findStatic] at this
  | .cons l1 n1 r1, .nil, v1, _, H => by
    obtain ⟨q, qrest, hwf, _, hf⟩ := stat_first_inhabited v1
    have := H q qrest hwf
    rw [hf] at this; simp [Kids.findStatic] at this
  | .cons l1 n1 r1, .cons l2 n2 r2, v1, v2, H => by
    -- the first children start with the same byte
    have hh : l1.pre.head? = l2.pre.head? := by
      apply Classical.byContradiction
      intro hne
      have step : ∀ {la lb : Label} {na nb : Node} {ra rb : Kids}, StatVec (.cons la na ra) → StatVec (.cons lb nb rb) →
          la.pre.head? ≠ lb.pre.head? →
          (∀ q qrest, wfParts (.stat q :: qrest) = true →
            (Kids.findStatic (.cons la na ra) q qrest).isSome = (Kids.findStatic (.cons lb nb rb) q qrest).isSome) →
          optLt lb.pre.head? la.pre.head? := by
        intro la lb na nb ra rb va vb hab Hab
        obtain ⟨q, qrest, hwf, hq, hf⟩ := stat_first_inhabited va
        have h2 := Hab q qrest hwf
        rw [hf] at h2
        have hm := head_mem_of_findStatic h2.symm
        simp only [Kids.heads, List.mem_cons] at hm
        rcases hm with hm | hm
        · rw [hq] at hm; exact absurd hm hab
        · rw [hq] at hm; exact SH_head_lt vb.sh _ hm
      have h12 := step v1 v2 hne H
      have h21 := step v2 v1 (fun e => hne e.symm) (fun q qrest hwf => (H q qrest hwf).symm)
      exact optLt_asymm _ _ h12 h21
    -- hence the same label
    have t12 := stat_cons_through v1 v2 hh H
    have t21 := stat_cons_through v2 v1 hh.symm (fun q qrest hwf => (H q qrest hwf).symm)
    obtain ⟨hc1, hr1, hk1⟩ := v1.kids.1
    obtain ⟨hc2, hr2, hk2⟩ := v2.kids.1
    have p12 : l1.pre <+: l2.pre := label_prefix l1 l2 n1 n2 v2.ne.1 hc2.1 hr2 hk2 t21
    have p21 : l2.pre <+: l1.pre := label_prefix l2 l1 n2 n1 v1.ne.1 hc1.1 hr1 hk1 t12
    have hl : l1.pre = l2.pre := by
      obtain ⟨t, ht⟩ := p12
      obtain ⟨u, hu⟩ := p21
      have := congrArg List.length ht
      have := congrArg List.length hu
      simp only [List.length_append] at *
      have ht0 : t = [] := List.eq_nil_of_length_eq_zero (by omega)
      rw [ht0, List.append_nil] at ht; exact ht
    -- the children store the same keys
    have hkeys : KeyEq n1 n2 := by
      intro K hK
      apply bool_eq_of_iff
      constructor
      · intro hf
        obtain ⟨q, qrest, he, ht⟩ := through_of_key l1 n1 K hK hf
        have hwf : wfParts (.stat q :: qrest) = true := by rw [← he]; exact wfParts_prepend _ v1.ne.1 _ hK
        have := (t12 q qrest hwf ht).2
        obtain ⟨p, rest, he', _, hb⟩ := prepend_spec l1.pre K hK
        rw [he'] at he; injection he with e1 e2; injection e1 with e1; subst e1 e2
        rw [← hl, hb] at this; exact this
      · intro hf
        obtain ⟨q, qrest, he, ht⟩ := through_of_key l2 n2 K hK hf
        have hwf : wfParts (.stat q :: qrest) = true := by rw [← he]; exact wfParts_prepend _ v2.ne.1 _ hK
        have := (t21 q qrest hwf ht).2
        obtain ⟨p, rest, he', _, hb⟩ := prepend_spec l2.pre K hK
        rw [he'] at he; injection he with e1 e2; injection e1 with e1; subst e1 e2
        rw [hl, hb] at this; exact this
    -- the remaining siblings store the same keys
    have htail : ∀ q qrest, wfParts (.stat q :: qrest) = true →
        (Kids.findStatic r1 q qrest).isSome = (Kids.findStatic r2 q qrest).isSome := by
      intro q qrest hwf
      by_cases hq : l1.pre.head? = q.head?
      · rw [findStatic_noHead r1 q qrest (hq ▸ v1.dh.1), findStatic_noHead r2 q qrest (by rw [← hq, hh]; exact v2.dh.1)]
      · have h := H q qrest hwf
        have np1 : ¬ l1.pre.isPrefixOf q = true := fun hp => hq (head_of_isPrefixOf v1.ne.1 hp).symm
        have hq2 : ¬ l2.pre.head? = q.head? := by rw [← hh]; exact hq
        have np2 : ¬ l2.pre.isPrefixOf q = true := fun hp => hq2 (head_of_isPrefixOf v2.ne.1 hp).symm
        rw [findStatic_cons_spec l1 n1 r1 q qrest v1.ne.1 v1.dh.1, if_neg np1, if_neg hq,
            findStatic_cons_spec l2 n2 r2 q qrest v2.ne.1 v2.dh.1, if_neg np2, if_neg hq2] at h
        exact h
    simp only [Kids.skelS, hl, Node.skel_unique n1 n2 hc1 hc2 hkeys, Kids.skel_unique_stat r1 r2 v1.tail v2.tail htail]
theorem Kids.skel_unique_par (mid : Bool) : ∀ (v1 v2 : Kids), ParVec mid v1 → ParVec mid v2 →
    (∀ l K, wfParts K = true → startsStatOrEnd K → (mid = true → K ≠ []) →
      (Kids.findPar v1 l K).isSome = (Kids.findPar v2 l K).isSome) → Kids.skel v1 = Kids.skel v2
  | .nil, .nil, _, _, _ => rfl
  | .nil, .cons l2 n2 r2, _, p2, H => by
    obtain ⟨K, hK, hst, hne, hf⟩ := par_first_inhabited p2
    have := H l2 K hK hst hne
    rw [findPar_head, hf] at this; simp [Kids.findPar] at this
  | .cons l1 n1 r1, .nil, p1, _, H => by
    obtain ⟨K, hK, hst, hne, hf⟩ := par_first_inhabited p1
    have := H l1 K hK hst hne
    rw [findPar_head, hf] at this; simp [Kids.findPar] at this
  | .cons l1 n1 r1, .cons l2 n2 r2, p1, p2, H => by
    have hl : l1 = l2 := by
      apply Classical.byContradiction
      intro hne
      have step : ∀ {la lb : Label} {na nb : Node} {ra rb : Kids}, ParVec mid (.cons la na ra) → ParVec mid (.cons lb nb rb) →
          la ≠ lb →
          (∀ l K, wfParts K = true → startsStatOrEnd K → (mid = true → K ≠ []) →
            (Kids.findPar (.cons la na ra) l K).isSome = (Kids.findPar (.cons lb nb rb) l K).isSome) →
          Label.lt lb la = true := by
        intro la lb na nb ra rb pa pb hab Hab
        obtain ⟨K, hK, hst, hne', hf⟩ := par_first_inhabited pa
        have h2 := Hab la K hK hst hne'
        rw [findPar_head, hf] at h2
        have hm := label_mem_of_findPar h2.symm
        simp only [Kids.labels, List.mem_cons] at hm
        rcases hm with hm | hm
        · exact absurd hm hab
        · exact SortedL_head_lt pb.srt _ hm
      have h12 := step p1 p2 hne H
      have h21 := step p2 p1 (fun e => hne e.symm) (fun l K a b c => (H l K a b c).symm)
      rw [Label.lt_asymm _ _ h12] at h21; cases h21
    subst hl
    obtain ⟨hc1, hr1, ho1, hm1⟩ := p1.kids.1
    obtain ⟨hc2, hr2, ho2, hm2⟩ := p2.kids.1
    have hkeys : KeyEq n1 n2 := by
      intro K hK
      cases K with
      | nil =>
        cases hmid : mid with
        | true => rw [find_data, find_data, hm1 hmid, hm2 hmid]
        | false =>
          have := H l1 [] rfl trivial (by intro h; rw [hmid] at h; cases h)
          rwa [findPar_head, findPar_head] at this
      | cons x K =>
        cases x with
        | par k l => rw [find_onlyStatic_par n1 k l K ho1, find_onlyStatic_par n2 k l K ho2]
        | stat t =>
          have := H l1 (.stat t :: K) hK trivial (by intro _ h; cases h)
          rwa [findPar_head, findPar_head] at this
    have hnot1 : l1 ∉ r1.labels := fun hm => by
      have := SortedL_head_lt p1.srt _ hm; rw [Label.lt_irrefl] at this; cases this
    have hnot2 : l1 ∉ r2.labels := fun hm => by
      have := SortedL_head_lt p2.srt _ hm; rw [Label.lt_irrefl] at this; cases this
    have htail : ∀ l K, wfParts K = true → startsStatOrEnd K → (mid = true → K ≠ []) →
        (Kids.findPar r1 l K).isSome = (Kids.findPar r2 l K).isSome := by
      intro l K a b c
      by_cases hll : l1 = l
      · subst hll; rw [findPar_notin r1 l1 K hnot1, findPar_notin r2 l1 K hnot2]
      · have := H l K a b c
        simpa only [Kids.findPar, hll, ite_false] using this
    simp only [Kids.skel, Node.skel_unique n1 n2 hc1 hc2 hkeys, Kids.skel_unique_par mid r1 r2 p1.tail p2.tail htail]
end

#print axioms Node.skel_unique
