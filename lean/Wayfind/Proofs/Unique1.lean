import Wayfind.Proofs.Canon4
import Wayfind.Proofs.Registry5

/-! Uniqueness of the canonical tree, part 1: the *shape* of a tree (labels, child order, which nodes carry data —
everything `Display` prints), keys that are certainly present below a node, and how keys descend through a literal child. -/

def dummyInfo : Info := {template := [], data := 0, depth := 0, length := 0}

mutual
/-- forget values, flags and dirty marks -/
def Node.shape : Node → Node
  | .mk x s dc d wc w ec e _ _ _ =>
    .mk (x.map fun _ => dummyInfo) (Kids.shape s) (Kids.shape dc) (Kids.shape d) (Kids.shape wc) (Kids.shape w)
      (Kids.shape ec) (Kids.shape e) false false false
def Kids.shape : Kids → Kids
  | .nil => .nil
  | .cons l n r => .cons l (Node.shape n) (Kids.shape r)
end

/-- two strictly sorted lists with the same members are equal -/
theorem sorted_ext' {α} {R : α → α → Prop} (hasym : ∀ a b, R a b → ¬ R b a) :
    ∀ (l1 l2 : List α), l1.Pairwise R → l2.Pairwise R → (∀ x, x ∈ l1 ↔ x ∈ l2) → l1 = l2
  | [], [], _, _, _ => rfl
  | [], b :: l2, _, _, h => by have := (h b).2 (by simp); simp at this
  | a :: l1, [], _, _, h => by have := (h a).1 (by simp); simp at this
  | a :: l1, b :: l2, h1, h2, h => by
    rw [List.pairwise_cons] at h1 h2
    have hab : a = b := by
      by_cases e : a = b
      · exact e
      · have ha : a ∈ l2 := by
          have := (h a).1 (by simp); rcases List.mem_cons.1 this with h' | h'
          · exact absurd h' e
          · exact h'
        have hb : b ∈ l1 := by
          have := (h b).2 (by simp); rcases List.mem_cons.1 this with h' | h'
          · exact absurd h'.symm e
          · exact h'
        exact absurd (h1.1 b hb) (hasym _ _ (h2.1 a ha))
    subst hab
    have hirr : ∀ x, ¬ R x x := fun x hx => hasym x x hx hx
    congr 1
    apply sorted_ext' hasym l1 l2 h1.2 h2.2
    intro x
    constructor
    · intro hx
      have := (h x).1 (by simp [hx]); rcases List.mem_cons.1 this with h' | h'
      · subst h'; exact absurd (h1.1 x hx) (hirr x)
      · exact h'
    · intro hx
      have := (h x).2 (by simp [hx]); rcases List.mem_cons.1 this with h' | h'
      · subst h'; exact absurd (h2.1 x hx) (hirr x)
      · exact h'

theorem optLt_asymm : ∀ (a b : Option Byte), optLt a b → ¬ optLt b a
  | some x, some y, h, h' => by
    simp only [optLt] at h h'
    exact absurd h (UInt8.lt_asymm h')
  | none, _, h, _ => by simp [optLt] at h
  | some _, none, h, _ => by simp [optLt] at h

/-! ### a key that is certainly stored below a non-empty node -/

theorem norm_startsStatOrEnd_of : ∀ (P : List Part), startsStatOrEnd P → startsStatOrEnd (norm P)
  | [], _ => by simp [norm, startsStatOrEnd]
  | .stat a :: rest, _ => by
    simp only [norm]
    split <;> simp [startsStatOrEnd]
  | .par _ _ :: _, h => by simp [startsStatOrEnd] at h

theorem statRoutes_start : ∀ (s : Kids), ∀ r ∈ Kids.routes statPart s, startsStatOrEnd r.parts
  | .nil, r, hr => by simp [Kids.routes] at hr
  | .cons l n r', r, hr => by
    simp only [Kids.routes, List.mem_append, List.mem_map] at hr
    rcases hr with ⟨r0, _, rfl⟩ | hr
    · simp [Route.push, statPart, startsStatOrEnd]
    · exact statRoutes_start r' r hr

theorem onlyStatic_routes_start : ∀ (n : Node), n.onlyStatic → ∀ r ∈ Node.routes n, startsStatOrEnd r.parts
  | .mk x s dc d wc w ec e ds ws dirty, ho, r, hr => by
    obtain ⟨rfl, rfl, rfl, rfl, rfl, rfl⟩ := ho
    rw [routes_eq] at hr
    simp only [Kids.routes, List.append_nil, List.mem_append] at hr
    rcases hr with hr | hr
    · cases x <;> simp [dataRoute] at hr
      subst hr; simp [startsStatOrEnd]
    · exact statRoutes_start s r hr

/-- **inhabitant**: a well-shaped node with at least one route stores some well-formed key; below a parameter node the
key starts with literal text (or is empty), and it is non-empty when the node itself carries no data -/
theorem Node.inhabited (n : Node) (hS : Node.Shp n) (hne : Node.routes n ≠ []) :
    ∃ K, wfParts K = true ∧ (Node.find n K).isSome = true ∧ (n.onlyStatic → startsStatOrEnd K) ∧ (n.data = none → K ≠ []) := by
  cases hr : Node.routes n with
  | nil => exact absurd hr hne
  | cons r rs =>
    have hmem : r ∈ Node.routes n := by rw [hr]; simp
    obtain ⟨hwf, hf⟩ := route_find hS r hmem
    refine ⟨norm r.parts, hwf, by simp [hf], ?_, ?_⟩
    · intro ho; exact norm_startsStatOrEnd_of _ (onlyStatic_routes_start n ho r hmem)
    · intro hd hnil
      rw [hnil] at hf
      cases n with
      | mk x s dc d wc w ec e ds ws dirty =>
        simp only [Node.find] at hf
        simp only [Node.data] at hd
        rw [hd] at hf; cases hf

/-! ### keys below a literal child -/

/-- the key of the parent that descends to key `K` of a literal child labelled `q` -/
def prepend (q : Bytes) : List Part → List Part
  | .stat t :: rest => .stat (q ++ t) :: rest
  | K => .stat q :: K

theorem wfParts_prepend (q : Bytes) (hq : q ≠ []) : ∀ (K : List Part), wfParts K = true → wfParts (prepend q K) = true
  | [], _ => by simp [prepend, wfParts, hq]
  | .par k l :: rest, h => by
    simp only [prepend, wfParts, Bool.and_eq_true]
    exact ⟨by simp [hq], h⟩
  | [.stat t], h => by
    simp only [wfParts, Bool.not_eq_eq_eq_not, Bool.not_true, List.isEmpty_eq_false_iff] at h
    simp [prepend, wfParts, hq]
  | .stat t :: .par k l :: rest, h => by
    simp only [wfParts, Bool.and_eq_true] at h
    simp only [prepend, wfParts, Bool.and_eq_true]
    exact ⟨by simp [hq], h.2⟩
  | .stat t :: .stat _ :: _, h => by simp [wfParts] at h

/-- `prepend q K` is `stat p :: rest` with `q` a prefix of `p`, and descending by `q` gives back `K` -/
theorem prepend_spec (q : Bytes) : ∀ (K : List Part), wfParts K = true →
    ∃ p rest, prepend q K = .stat p :: rest ∧ q.isPrefixOf p = true ∧ below p q.length rest = K
  | [], _ => ⟨q, [], rfl, by simp [List.isPrefixOf_iff_prefix], by simp [below]⟩
  | .par k l :: rest, _ => ⟨q, .par k l :: rest, rfl, by simp [List.isPrefixOf_iff_prefix], by simp [below]⟩
  | .stat t :: rest, h => by
    have ht : t ≠ [] := by
      cases rest with
      | nil => simpa [wfParts] using h
      | cons x rest => cases x with
        | par _ _ => simp only [wfParts, Bool.and_eq_true] at h; simpa using h.1
        | stat _ => simp [wfParts] at h
    refine ⟨q ++ t, rest, rfl, by simp [List.isPrefixOf_iff_prefix], ?_⟩
    have hpos : 0 < t.length := List.length_pos_iff.mpr ht
    have : ¬ (q ++ t).length ≤ q.length := by
      simp only [List.length_append]; omega
    simp [below, hpos]
