import Wayfind.Proofs.Strategy

mutual
theorem routes_clear : ∀ (n : Node), Node.routes (Node.clear n) = Node.routes n
  | .mk x s dc d wc w ec e _ _ _ => by
    simp only [Node.clear, Node.routes, kroutes_clear _ s, kroutes_clear _ dc, kroutes_clear _ d,
      kroutes_clear _ wc, kroutes_clear _ w, kroutes_clear _ ec, kroutes_clear _ e]
theorem kroutes_clear (mk : Label → Part) : ∀ (ks : Kids), Kids.routes mk (Kids.clear ks) = Kids.routes mk ks
  | .nil => rfl
  | .cons l n r => by simp only [Kids.clear, Kids.routes, routes_clear n, kroutes_clear mk r]
end

-- the shape of T-compress without the requirement that the flags are off
mutual
def Node.TSany : Node → Prop
  | .mk _ s dc d wc w ec e _ _ _ =>
    Kids.TSanyk s ∧ Kids.TSanyk dc ∧ Kids.TSanyk d ∧ Kids.TSanyk wc ∧ Kids.TSanyk w ∧
    Kids.All (fun l _ => l.pre ≠ []) s ∧ Kids.distinctHeads s ∧
    Kids.All (fun _ n => n.data = none) wc ∧ Kids.All (fun _ n => n.data = none) w ∧
    Kids.leaves ec ∧ Kids.leaves e ∧
    SortedL dc.labels ∧ SortedL d.labels ∧ SortedL wc.labels ∧ SortedL w.labels ∧
    SortedL ec.labels ∧ SortedL e.labels
def Kids.TSanyk : Kids → Prop
  | .nil => True
  | .cons _ n r => Node.TSany n ∧ Node.routes n ≠ [] ∧ Kids.TSanyk r
end

theorem labels_clear : ∀ (ks : Kids), (Kids.clear ks).labels = ks.labels
  | .nil => rfl
  | .cons l n r => by simp [Kids.clear, Kids.labels, labels_clear r]

theorem All_label_clear (P : Label → Prop) : ∀ (ks : Kids), Kids.All (fun l _ => P l) ks → Kids.All (fun l _ => P l) (Kids.clear ks)
  | .nil, _ => trivial
  | .cons l n r, h => ⟨h.1, All_label_clear P r h.2⟩

theorem All_data_clear : ∀ (ks : Kids), Kids.All (fun _ n => n.data = none) ks → Kids.All (fun _ n => n.data = none) (Kids.clear ks)
  | .nil, _ => trivial
  | .cons l n r, h => ⟨by show (Node.clear n).data = none; rw [data_clear]; exact h.1, All_data_clear r h.2⟩

theorem noHead_clear (b : Option Byte) : ∀ (ks : Kids), Kids.noHead b ks → Kids.noHead b (Kids.clear ks)
  | .nil, _ => trivial
  | .cons l n r, h => ⟨h.1, noHead_clear b r h.2⟩

theorem distinctHeads_clear : ∀ (ks : Kids), Kids.distinctHeads ks → Kids.distinctHeads (Kids.clear ks)
  | .nil, _ => trivial
  | .cons l n r, h => ⟨noHead_clear _ r h.1, distinctHeads_clear r h.2⟩

theorem leaves_clear : ∀ (ks : Kids), Kids.leaves ks → Kids.leaves (Kids.clear ks)
  | .nil, _ => trivial
  | .cons l n r, h => by
    obtain ⟨⟨i, ds, ws, d, rfl⟩, hr⟩ := h
    exact ⟨⟨i, false, false, d, by simp [Node.clear, Kids.clear]⟩, leaves_clear r hr⟩

mutual
theorem TS_clear : ∀ (n : Node), Node.TSany n → Node.TS (Node.clear n)
  | .mk x s dc d wc w ec e ds ws dirty, h => by
    simp only [Node.TSany] at h
    obtain ⟨hs, hdc, hd, hwc, hw, hsne, hsd, hwcn, hwn, hecl, hel, sdc, sd, swc, sw, sec, se⟩ := h
    simp only [Node.clear, Node.TS, labels_clear]
    exact ⟨trivial, trivial, TSk_clear s hs, TSk_clear dc hdc, TSk_clear d hd, TSk_clear wc hwc, TSk_clear w hw,
      All_label_clear _ s hsne, distinctHeads_clear s hsd, All_data_clear wc hwcn, All_data_clear w hwn,
      leaves_clear ec hecl, leaves_clear e hel, sdc, sd, swc, sw, sec, se⟩
theorem TSk_clear : ∀ (ks : Kids), Kids.TSanyk ks → Kids.TSk (Kids.clear ks)
  | .nil, _ => trivial
  | .cons l n r, h => ⟨TS_clear n h.1, by rw [routes_clear]; exact h.2.1, TSk_clear r h.2.2⟩
end

/-- **T-walk.** On every tree of canonical shape whose flags are sound, the search — with whichever
    capture strategy the flags select — is the documented walk over the tree's routes. -/
theorem Node.search_eq_refWalk (env : Env) (n : Node) (hS : Node.TSany n) (hF : Node.FS n)
    (path : Bytes) (ps : Params) (f : Nat) (hf : path.length ≤ f) :
    Node.search env n path ps = refWalk env f (Node.routes n) path ps := by
  rw [Node.search_clear env n path ps hF, Node.search_eq_walk env (Node.clear n) path ps f (TS_clear n hS) hf,
    routes_clear]

#print axioms Node.search_eq_refWalk
