import Wayfind.Proofs.MapInfo
import Wayfind.Spec.RefWalk

/-! the documented walk commutes with any relabelling of the stored values that keeps `depth` and `length` -/

def Route.mapI (g : Info → Info) (r : Route) : Route := ⟨r.parts, g r.info⟩

theorem stripByte_mapI (g : Info → Info) (b : Byte) (r : Route) :
    stripByte b (r.mapI g) = (stripByte b r).map (Route.mapI g) := by
  unfold stripByte Route.mapI
  simp only
  split
  · split <;> simp
  · simp

theorem headPar_mapI (g : Info → Info) (k : PKind) (last : Bool) (r : Route) :
    headPar k last (r.mapI g) = (headPar k last r).map (fun x => (x.1, x.2.mapI g)) := by
  unfold headPar Route.mapI
  simp only
  split
  · split <;> simp
  · simp

theorem stripPar_mapI (g : Info → Info) (k : PKind) (last : Bool) (l : Label) (r : Route) :
    stripPar k last l (r.mapI g) = (stripPar k last l r).map (Route.mapI g) := by
  unfold stripPar
  rw [headPar_mapI]
  cases headPar k last r with
  | none => rfl
  | some x => simp only [Option.map_some]; split <;> simp

theorem filterMap_map_comm {α} (f : α → Option α) (h : α → α) (hc : ∀ x, f (h x) = (f x).map h) :
    ∀ (l : List α), (l.map h).filterMap f = (l.filterMap f).map h
  | [] => rfl
  | x :: xs => by
    simp only [List.map_cons, List.filterMap_cons, hc x]
    cases f x with
    | none => simp only [Option.map_none]; exact filterMap_map_comm f h hc xs
    | some y => simp only [Option.map_some, List.map_cons]; rw [filterMap_map_comm f h hc xs]

theorem labelsOf_mapI (g : Info → Info) (k : PKind) (last : Bool) (rs : List Route) :
    labelsOf k last (rs.map (Route.mapI g)) = labelsOf k last rs := by
  unfold labelsOf
  congr 1
  induction rs with
  | nil => rfl
  | cons r rs ih =>
    simp only [List.map_cons, List.filterMap_cons, headPar_mapI]
    cases headPar k last r <;> simp [ih]

theorem endInfo_mapI (g : Info → Info) (k : PKind) (l : Label) (rs : List Route) :
    endInfo k l (rs.map (Route.mapI g)) = (endInfo k l rs).map g := by
  unfold endInfo
  induction rs with
  | nil => rfl
  | cons r rs ih =>
    simp only [List.map_cons, List.find?_cons]
    have : (r.mapI g).parts = r.parts := rfl
    rw [this]
    split
    · simp [Route.mapI]
    · exact ih

theorem find_empty_mapI (g : Info → Info) (rs : List Route) :
    ((rs.map (Route.mapI g)).find? (·.parts.isEmpty)).map (·.info) = ((rs.find? (·.parts.isEmpty)).map (·.info)).map g := by
  induction rs with
  | nil => rfl
  | cons r rs ih =>
    simp only [List.map_cons, List.find?_cons]
    have : (r.mapI g).parts = r.parts := rfl
    rw [this]
    split
    · simp [Route.mapI]
    · exact ih

theorem firstSome_mapI {α} (g : Info → Info) (f f' : α → Res) (h : ∀ a, f' a = Res.mapI g (f a)) :
    ∀ (l : List α), firstSome f' l = Res.mapI g (firstSome f l)
  | [] => rfl
  | a :: as => by simp only [firstSome, h a, firstSome_mapI g f f' h as, orElse'_mapI]

theorem refWalk_mapI (g : Info → Info) (hg : KeepsRank g) (env : Env) : ∀ (fuel : Nat) (rs : List Route) (path : Bytes) (ps : Params),
    refWalk env fuel (rs.map (Route.mapI g)) path ps = Res.mapI g (refWalk env fuel rs path ps)
  | _, rs, [], ps => by
    simp only [refWalk]
    have := find_empty_mapI g rs
    cases h1 : (rs.map (Route.mapI g)).find? (·.parts.isEmpty) <;> cases h2 : rs.find? (·.parts.isEmpty) <;>
      simp_all [Res.mapI]
  | 0, _, _ :: _, _ => rfl
  | fuel + 1, rs, b :: tl, ps => by
    have ih := refWalk_mapI g hg env fuel
    have hstrip : (rs.map (Route.mapI g)).filterMap (stripByte b) = (rs.filterMap (stripByte b)).map (Route.mapI g) :=
      filterMap_map_comm (stripByte b) (Route.mapI g) (stripByte_mapI g b) rs
    have hpar : ∀ k, parStep env k (rs.map (Route.mapI g)) (b :: tl) ps (refWalk env fuel) =
        Res.mapI g (parStep env k rs (b :: tl) ps (refWalk env fuel)) := by
      intro k
      unfold parStep
      rw [labelsOf_mapI]
      apply firstSome_mapI
      intro l
      have hs : (rs.map (Route.mapI g)).filterMap (stripPar k false l) = (rs.filterMap (stripPar k false l)).map (Route.mapI g) :=
        filterMap_map_comm (stripPar k false l) (Route.mapI g) (stripPar_mapI g k false l) rs
      rw [hs]
      exact tryCands_mapI g hg env _ l.name (b :: tl) ps _ _ (fun p q => ih _ p q) _ none
    simp only [refWalk]
    rw [hstrip, ih, hpar, hpar, hpar, hpar, labelsOf_mapI, labelsOf_mapI]
    simp only [← orElse'_mapI]
    congr 1; congr 1; congr 1; congr 1; congr 1; congr 1
    · apply firstSome_mapI
      intro l
      rw [endInfo_mapI]
      split
      · cases endInfo .wildC l rs <;> simp [Res.mapI]
      · rfl
    · cases labelsOf .wild true rs with
      | nil => rfl
      | cons l _ =>
        simp only [endInfo_mapI]
        split
        · cases endInfo .wild l rs <;> simp [Res.mapI]
        · rfl
