import Wayfind.Proofs.TWalkFull
import Wayfind.Model.Delete
import Wayfind.Proofs.FindInsert

/-! Hereditary structural shape (independent of sorting, flags and dirty marks) and its preservation by insert -/

def NodupL (L : List Label) : Prop := L.Pairwise (· ≠ ·)

/-- well-formed part list: literals non-empty, never two literals and never two parameters in a row -/
def wfParts : List Part → Bool
  | [] => true
  | [.stat p] => !p.isEmpty
  | [.par _ _] => true
  | .stat p :: .par k l :: rest => !p.isEmpty && wfParts (.par k l :: rest)
  | .par _ _ :: .stat q :: rest => wfParts (.stat q :: rest)
  | .stat _ :: .stat _ :: _ => false
  | .par _ _ :: .par _ _ :: _ => false

theorem wfParts_altOK : ∀ (P : List Part), wfParts P = true → altOK P = true
  | [], _ => rfl
  | [.stat p], h => by simpa [wfParts, altOK] using h
  | [.par _ _], _ => by simp [altOK]
  | .stat p :: .par k l :: rest, h => by
    simp only [wfParts, Bool.and_eq_true] at h
    have ih := wfParts_altOK _ h.2
    simp only [altOK] at ih
    simp only [altOK, Bool.and_eq_true]
    exact ⟨⟨h.1, trivial⟩, ih⟩
  | .par _ _ :: .stat q :: rest, h => by
    simp only [wfParts] at h
    simp only [altOK]
    exact wfParts_altOK _ h
  | .stat _ :: .stat _ :: _, h => by simp [wfParts] at h
  | .par _ _ :: .par _ _ :: _, h => by simp [wfParts] at h

theorem wfParts_tail : ∀ {p : Part} {P : List Part}, wfParts (p :: P) = true → wfParts P = true
  | .stat _, [], _ => rfl
  | .par _ _, [], _ => rfl
  | .stat p, .par k l :: rest, h => by simp only [wfParts, Bool.and_eq_true] at h; exact h.2
  | .par _ _, .stat q :: rest, h => by simpa only [wfParts] using h
  | .stat _, .stat _ :: _, h => by simp [wfParts] at h
  | .par _ _, .par _ _ :: _, h => by simp [wfParts] at h

/-- after a parameter comes a literal or the end -/
def startsStatOrEnd : List Part → Prop
  | [] => True
  | .stat _ :: _ => True
  | .par _ _ :: _ => False

theorem wfParts_after_par {k l} {P : List Part} (h : wfParts (.par k l :: P) = true) : startsStatOrEnd P := by
  cases P with
  | nil => trivial
  | cons p P => cases p with
    | stat _ => trivial
    | par _ _ => simp [wfParts] at h

mutual
def Node.Shp : Node → Prop
  | .mk _ s dc d wc w ec e _ _ _ =>
    Kids.All (fun l _ => l.pre ≠ []) s ∧ Kids.distinctHeads s ∧
    Kids.All (fun _ n => n.data = none) wc ∧ Kids.All (fun _ n => n.data = none) w ∧
    Kids.leaves ec ∧ Kids.leaves e ∧
    NodupL dc.labels ∧ NodupL d.labels ∧ NodupL wc.labels ∧ NodupL w.labels ∧ NodupL ec.labels ∧ NodupL e.labels ∧
    Kids.All (fun _ n => n.onlyStatic) dc ∧ Kids.All (fun _ n => n.onlyStatic) d ∧
    Kids.All (fun _ n => n.onlyStatic) wc ∧ Kids.All (fun _ n => n.onlyStatic) w ∧
    Kids.Shpk s ∧ Kids.Shpk dc ∧ Kids.Shpk d ∧ Kids.Shpk wc ∧ Kids.Shpk w
def Kids.Shpk : Kids → Prop
  | .nil => True
  | .cons _ n r => Node.Shp n ∧ Node.routes n ≠ [] ∧ Kids.Shpk r
end

theorem routes_leafNode (i : Info) : Node.routes (Node.leaf i) = [⟨[], i⟩] := by
  simp [Node.leaf, Node.routes, Kids.routes]

theorem chain_routes_ne : ∀ (P : List Part) (i : Info), Node.routes (chain P i) ≠ []
  | [], i => by simp [chain, routes_leafNode]
  | .stat p :: rest, i => by
    have := chain_routes_ne rest i
    simp only [chain, Node.routes, Kids.routes, List.nil_append, List.append_nil]
    cases h : Node.routes (chain rest i) with
    | nil => exact absurd h this
    | cons a t => simp
  | .par k l :: rest, i => by
    have := chain_routes_ne rest i
    cases h : Node.routes (chain rest i) with
    | nil => exact absurd h this
    | cons a t =>
      simp only [chain]
      cases k <;> cases rest.isEmpty <;> simp [slotOf, Node.routes, Kids.routes, h]
