import Wayfind.Proofs.WS

def Kids.All (P : Label → Node → Prop) : Kids → Prop
  | .nil => True
  | .cons l n r => P l n ∧ Kids.All P r

def hp (k : PKind) (last : Bool) : Route → Option Label := fun r => (headPar k last r).map (·.1)

theorem headPar_push_par (k k' : PKind) (last : Bool) (l : Label) (r : Route) :
    headPar k last (Route.push (.par k' l) r) =
      if k' = k ∧ (wildK k && r.parts.isEmpty) = last then some (l, r) else none := by
  simp [headPar, Route.push]

theorem headPar_push_stat (k : PKind) (last : Bool) (p : Bytes) (r : Route) :
    headPar k last (Route.push (.stat p) r) = none := by
  simp [headPar, Route.push]

theorem stripPar_eq (k : PKind) (last : Bool) (l : Label) (r : Route) :
    stripPar k last l r = (headPar k last r).bind (fun x => if x.1 = l then some x.2 else none) := by
  unfold stripPar; cases headPar k last r <;> rfl

/-- routes hanging below a mid-route child: every one offers the label, none is a catch-all -/
theorem hp_map_push (k : PKind) (l : Label) (R : List Route) (h : wildK k = true → ∀ r ∈ R, r.parts ≠ []) :
    (R.map (Route.push (.par k l))).filterMap (hp k false) = List.replicate R.length l := by
  induction R with
  | nil => rfl
  | cons r R ih =>
    have ih' := ih (fun hk x hx => h hk x (by simp [hx]))
    have hr : (wildK k && r.parts.isEmpty) = false := by
      cases hk : wildK k with
      | false => rfl
      | true => have := h hk r (by simp); simp [List.isEmpty_iff, this]
    simp only [List.map_cons, List.filterMap_cons, hp, headPar_push_par, hr, and_self, ite_true, Option.map_some,
      List.length_cons, List.replicate_succ]
    exact congrArg _ ih'

theorem sp_map_push_same (k : PKind) (l : Label) (R : List Route) (h : wildK k = true → ∀ r ∈ R, r.parts ≠ []) :
    (R.map (Route.push (.par k l))).filterMap (stripPar k false l) = R := by
  induction R with
  | nil => rfl
  | cons r R ih =>
    have ih' := ih (fun hk x hx => h hk x (by simp [hx]))
    have hr : (wildK k && r.parts.isEmpty) = false := by
      cases hk : wildK k with
      | false => rfl
      | true => have := h hk r (by simp); simp [List.isEmpty_iff, this]
    simp only [List.map_cons, List.filterMap_cons, stripPar_eq, headPar_push_par, hr, and_self, ite_true,
      Option.bind_some]
    exact congrArg _ ih'

theorem stripPar_push_ne (k : PKind) (last : Bool) (l l' : Label) (hl : l ≠ l') (r : Route) :
    stripPar k last l' (Route.push (.par k l) r) = none := by
  rw [stripPar_eq, headPar_push_par]; split <;> simp [hl]

theorem sp_map_push_ne (k : PKind) (last : Bool) (l l' : Label) (hl : l ≠ l') (R : List Route) :
    (R.map (Route.push (.par k l))).filterMap (stripPar k last l') = [] := by
  induction R with
  | nil => rfl
  | cons r R ih => simp only [List.map_cons, List.filterMap_cons, stripPar_push_ne k last l l' hl, ih]

theorem labelsOf_eq (k : PKind) (last : Bool) (rs : List Route) :
    labelsOf k last rs = sortLabels (rs.filterMap (hp k last)) := rfl

theorem mem_hp_routes (k : PKind) (last : Bool) : ∀ (ks : Kids) (x : Label),
    x ∈ (Kids.routes (.par k) ks).filterMap (hp k last) → x ∈ ks.labels
  | .nil, x, h => by simp [Kids.routes] at h
  | .cons l n r, x, h => by
    simp only [Kids.routes, List.filterMap_append, List.mem_append, List.mem_filterMap, List.mem_map] at h
    rcases h with ⟨_, ⟨r0, _, rfl⟩, hx⟩ | h
    · simp only [hp, headPar_push_par] at hx
      split at hx <;> simp at hx
      simp [Kids.labels, hx]
    · simp only [Kids.labels, List.mem_cons]
      exact Or.inr (mem_hp_routes k last r x (by simpa [List.mem_filterMap] using h))

theorem sp_routes_notin (k : PKind) (last : Bool) (l' : Label) : ∀ (ks : Kids), l' ∉ ks.labels →
    (Kids.routes (.par k) ks).filterMap (stripPar k last l') = []
  | .nil, _ => by simp [Kids.routes]
  | .cons l n r, h => by
    simp only [Kids.labels, List.mem_cons, not_or] at h
    simp only [Kids.routes, List.filterMap_append, sp_map_push_ne k last l l' (fun e => h.1 e.symm) _,
      sp_routes_notin k last l' r h.2, List.append_nil]

theorem lt_ne {a b : Label} (h : Label.lt a b = true) : a ≠ b := by
  intro e; subst e; rw [Label.lt_irrefl] at h; cases h

/-- KP: one parameter slot. The walk's alphabetical enumeration of labels is the stored child order. -/
theorem searchPar_eq_parStep (env : Env) (k : PKind) (path : Bytes) (ps : Params) (f : Nat) :
    ∀ (ks : Kids),
    Kids.All (fun _ n => ∀ c, 1 ≤ c → c ≤ path.length → ∀ q,
      Node.search env n (path.drop c) q = refWalk env f (Node.routes n) (path.drop c) q) ks →
    Kids.All (fun _ n => Node.routes n ≠ [] ∧ (wildK k = true → n.data = none)) ks →
    SortedL ks.labels →
    Kids.searchPar env (consK k) (candsInline (wildK k) path) ks path ps =
      parStep env k (Kids.routes (.par k) ks) path ps (refWalk env f)
  | .nil, _, _, _ => by simp [Kids.searchPar, parStep, Kids.routes, labelsOf_nil, firstSome]
  | .cons l n r, hIH, hne, hs => by
    simp only [Kids.All] at hIH hne
    simp only [Kids.labels, SortedL, List.pairwise_cons] at hs
    have hpn : wildK k = true → ∀ x ∈ Node.routes n, x.parts ≠ [] :=
      fun hk => routes_parts_ne_of_data_none n (hne.1.2 hk)
    have ih := searchPar_eq_parStep env k path ps f r hIH.2 hne.2 hs.2
    -- labels of the walk
    have hlen : ∃ m, (Node.routes n).length = m + 1 := by
      cases hR : Node.routes n with
      | nil => exact absurd hR hne.1.1
      | cons _ t => exact ⟨t.length, rfl⟩
    obtain ⟨m, hm⟩ := hlen
    have hlab : labelsOf k false (Kids.routes (.par k) (.cons l n r)) = l :: labelsOf k false (Kids.routes (.par k) r) := by
      rw [labelsOf_eq, labelsOf_eq]
      simp only [Kids.routes, List.filterMap_append, hp_map_push k l (Node.routes n) hpn, hm]
      apply sortLabels_replicate_append
      intro x hx
      exact hs.1 x (mem_hp_routes k false r x hx)
    have hnotin : l ∉ r.labels := fun h => lt_ne (hs.1 l h) rfl
    simp only [Kids.searchPar, parStep, hlab, firstSome]
    congr 1
    · -- the first child
      have : (Kids.routes (.par k) (.cons l n r)).filterMap (stripPar k false l) = Node.routes n := by
        simp only [Kids.routes, List.filterMap_append, sp_map_push_same k l _ hpn,
          sp_routes_notin k false l r hnotin, List.append_nil]
      rw [this]
      apply tryCands_congr
      intro c hc q
      have hb := candsInline_bounds _ _ c hc
      exact hIH.1 c hb.1 hb.2 q
    · -- the remaining children
      rw [ih]
      unfold parStep
      apply firstSome_congr
      intro l' hl'
      have hl'mem : l' ∈ r.labels := mem_hp_routes k false r l' (mem_sortLabels hl')
      have hne' : l ≠ l' := lt_ne (hs.1 l' hl'mem)
      have : (Kids.routes (.par k) (.cons l n r)).filterMap (stripPar k false l') =
          (Kids.routes (.par k) r).filterMap (stripPar k false l') := by
        simp only [Kids.routes, List.filterMap_append, sp_map_push_ne k false l l' hne', List.nil_append]
      rw [this]
