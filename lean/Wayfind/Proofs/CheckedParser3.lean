import Wayfind.Proofs.CheckedParser2

/-! The fuel of the checked transcription is never exhausted: `parseC` answers `ok` or a `TemplateError`, nothing else. -/

def NoFuel {α} (r : Except CErr α) : Prop := r ≠ .error .fuel

theorem NoFuel.ok {α} (a : α) : NoFuel (.ok a : Except CErr α) := fun h => by cases h
theorem NoFuel.terr {α} (e : TErr) : NoFuel (.error (.terr e) : Except CErr α) := fun h => by cases h
theorem NoFuel.pass {α β} {x : Except CErr α} (hx : NoFuel x) {e : CErr} (h : x = .error e) : NoFuel (.error e : Except CErr β) := by
  intro hs; injection hs with hs; subst hs; exact hx h

/-- fuel that suffices for `expandC` on a range of `n` bytes: the loop's steps (`n + 3`) plus what the largest nested call
needs (a group body is at least two bytes shorter than the range around it) -/
def needE : Nat → Nat
  | 0 => 3
  | 1 => 4
  | n + 2 => (n + 5) + needE n

theorem needE_succ : ∀ n, needE n ≤ needE (n + 1)
  | 0 => by decide
  | 1 => by decide
  | n + 2 => by
    have := needE_succ n
    simp only [needE]; omega

theorem needE_mono {m n : Nat} (h : m ≤ n) : needE m ≤ needE n := by
  induction h with
  | refl => exact Nat.le_refl _
  | step _ ih => exact Nat.le_trans ih (needE_succ _)

theorem needE_ge (n : Nat) : 3 ≤ needE n := by
  cases n with
  | zero => decide
  | succ n => cases n with
    | zero => decide
    | succ n => simp only [needE]; omega

theorem needE_le_sq : ∀ n, needE n + 1 ≤ (n + 2) * (n + 2)
  | 0 => by decide
  | 1 => by decide
  | n + 2 => by
    have ih := needE_le_sq n
    simp only [needE]
    have : (n + 2 + 2) * (n + 2 + 2) = (n + 2) * (n + 2) + (4 * n + 12) := by
      simp only [Nat.add_mul, Nat.mul_add]; omega
    omega

/-- what the nested calls of a range of `n` bytes can need -/
def nest : Nat → Nat
  | 0 => 0
  | 1 => 0
  | n + 2 => needE n

/-- what the loop still needs: the remaining scan (`end + 2 - cursor`) and the largest nested call -/
def needL (n r : Nat) : Nat := r + nest n

theorem needE_eq (n : Nat) : needE n = n + 3 + nest n := by
  cases n with
  | zero => rfl
  | succ n => cases n with
    | zero => rfl
    | succ n => simp only [needE, nest]

theorem nest_ge {m n : Nat} (h : m + 2 ≤ n) : needE m ≤ nest n := by
  obtain ⟨k, rfl⟩ : ∃ k, n = k + 2 := ⟨n - 2, by omega⟩
  simp only [nest]
  exact needE_mono (by omega)

theorem expand_nofuel (input : Bytes) : ∀ fuel,
    (∀ start end_, start ≤ end_ → needE (end_ - start) ≤ fuel → NoFuel (expandC input fuel start end_)) ∧
    (∀ start end_ cursor group depth result, start ≤ cursor → cursor ≤ end_ + 1 →
      (0 < depth → start < group ∧ group ≤ cursor) → needL (end_ - start) (end_ + 2 - cursor) ≤ fuel →
      NoFuel (expandLoopC input fuel start end_ cursor group depth result)) := by
  intro fuel
  induction fuel with
  | zero =>
    refine ⟨fun start end_ _ h => ?_, fun start end_ cursor group depth result _ hc _ h => ?_⟩
    · have := needE_ge (end_ - start)
      omega
    · simp only [needL] at h; omega
  | succ fuel ih =>
    obtain ⟨ihC, ihL⟩ := ih
    refine ⟨?_, ?_⟩
    · intro start end_ hse hf
      simp only [expandC]
      apply ihL start end_ start start 0 [[]] (Nat.le_refl _) (by omega) (fun h => absurd h (Nat.lt_irrefl 0))
      simp only [needL]
      have := needE_eq (end_ - start)
      omega
    · intro start end_ cursor group depth result hsc hce hd hf
      simp only [expandLoopC]
      simp only [needL] at hf
      have step1 : needL (end_ - start) (end_ + 2 - (cursor + 1)) ≤ fuel := by simp only [needL]; omega
      have step2 : cursor < end_ → needL (end_ - start) (end_ + 2 - (cursor + 2)) ≤ fuel := by intro _; simp only [needL]; omega
      split
      · rename_i hlt
        cases hg : getB input cursor "expand: input[cursor]" with
        | error e =>
          cases e with
          | fuel => simp [getB] at hg; split at hg <;> cases hg
          | panic s => exact fun h => by cases h
          | terr e => exact fun h => by cases h
        | ok b =>
          simp only
          split
          · exact ihL _ _ _ _ _ _ (by omega) (by omega) (fun h => ⟨(hd h).1, by have := (hd h).2; omega⟩) (step2 hlt)
          · split
            · split
              · cases hs : sliceC input group cursor "expand: input[group..cursor]" with
                | error e =>
                  simp only [sliceC] at hs
                  split at hs <;> cases hs
                  exact fun h => by cases h
                | ok seg => exact ihL _ _ _ _ _ _ (by omega) (by omega) (fun _ => ⟨by omega, Nat.le_refl _⟩) step1
              · exact ihL _ _ _ _ _ _ (by omega) (by omega) (fun _ => ⟨(hd (by omega)).1, by have := (hd (by omega)).2; omega⟩) step1
            · split
              · split
                · exact NoFuel.terr _
                · split
                  · split
                    · cases hsb : subC cursor 1 "expand: cursor - 1" with
                      | error e =>
                        simp only [subC] at hsb
                        split at hsb <;> cases hsb
                        exact fun h => by cases h
                      | ok p => exact NoFuel.terr _
                    · rename_i hd0 hd1 hcg
                      have hgrp := hd (by omega)
                      -- the nested call works on [group, cursor), at most n - 2 bytes
                      have hE : needE (cursor - group) ≤ fuel := by
                        have := nest_ge (m := cursor - group) (n := end_ - start) (by omega)
                        omega
                      cases hx : expandC input fuel group cursor with
                      | error e => exact NoFuel.pass (ihC group cursor hgrp.2 hE) hx
                      | ok inner => exact ihL _ _ _ _ _ _ (by omega) (by omega) (fun h => absurd h (Nat.lt_irrefl 0)) step1
                  · exact ihL _ _ _ _ _ _ (by omega) (by omega) (fun _ => ⟨(hd (by omega)).1, by have := (hd (by omega)).2; omega⟩) step1
              · exact ihL _ _ _ _ _ _ (by omega) (by omega) (fun h => ⟨(hd h).1, by have := (hd h).2; omega⟩) step1
      · split
        · cases hsb : subC (start + group) 1 "expand: start + group - 1" with
          | error e =>
            simp only [subC] at hsb
            split at hsb <;> cases hsb
            exact fun h => by cases h
          | ok p => exact NoFuel.terr _
        · split
          · cases hs : sliceC input group end_ "expand: input[group..end]" with
            | error e =>
              simp only [sliceC] at hs
              split at hs <;> cases hs
              exact fun h => by cases h
            | ok seg => exact NoFuel.ok _
          · exact NoFuel.ok _

theorem getB_nofuel {α} (input : Bytes) (i : Nat) (site : String) (f : Byte → Except CErr α) (hf : ∀ b, NoFuel (f b)) :
    NoFuel (match getB input i site with | .error e => .error e | .ok b => f b) := by
  unfold getB
  cases input[i]? with
  | none => exact fun h => by cases h
  | some b => exact hf b

/-- `parse_static_part`: enough fuel is one unit per remaining byte; progress when the first byte is literal text -/
theorem parseStaticC_nofuel (raw : Bytes) : ∀ fuel e pre, raw.length - e < fuel → NoFuel (parseStaticC raw fuel e pre) := by
  intro fuel
  induction fuel with
  | zero => intro e pre h; omega
  | succ fuel ih =>
    intro e pre h
    simp only [parseStaticC]
    split
    · rename_i hlt
      rw [getB_ok hlt]
      simp only
      split
      · split
        · exact ih _ _ (by omega)
        · exact ih _ _ (by omega)
      · split
        · exact NoFuel.ok _
        · exact ih _ _ (by omega)
    · exact NoFuel.ok _

theorem parseStaticC_progress (raw : Bytes) (fuel e : Nat) (pre : Bytes) (hlt : e < raw.length)
    (h123 : raw[e] ≠ 123) (h125 : raw[e] ≠ 125) (p : Bytes) (n : Nat)
    (h : parseStaticC raw (fuel + 1) e pre = .ok (p, n)) : e < n := by
  simp only [parseStaticC, hlt, ite_true, getB_ok hlt] at h
  split at h
  · split at h
    · have := (parseStaticC_spec raw fuel (e + 2) _).2 p n h; omega
    · have := (parseStaticC_spec raw fuel (e + 1) _).2 p n h; omega
  · split at h
    · rename_i hb; rcases hb with hb | hb
      · exact absurd hb h123
      · exact absurd hb h125
    · have := (parseStaticC_spec raw fuel (e + 1) _).2 p n h; omega

theorem braceScanC_nofuel (raw : Bytes) : ∀ fuel e count, raw.length - e < fuel → NoFuel (braceScanC raw fuel e count) := by
  intro fuel
  induction fuel with
  | zero => intro e count h; omega
  | succ fuel ih =>
    intro e count h
    simp only [braceScanC]
    split
    · rename_i hlt
      rw [getB_ok hlt]
      simp only
      split
      · exact ih _ _ (by omega)
      · split
        · split
          · exact NoFuel.ok _
          · exact ih _ _ (by omega)
        · exact ih _ _ (by omega)
    · exact NoFuel.ok _

theorem sliceC_nofuel {α} (input : Bytes) (a b : Nat) (site : String) (f : Bytes → Except CErr α) (hf : ∀ x, NoFuel (f x)) :
    NoFuel (match sliceC input a b site with | .error e => .error e | .ok x => f x) := by
  cases h : sliceC input a b site with
  | ok x => exact hf x
  | error e =>
    unfold sliceC at h
    split at h
    · cases h
    · injection h with h; subst h; exact fun h' => by cases h'

theorem subC_nofuel {α} (a b : Nat) (site : String) (f : Nat → Except CErr α) (hf : ∀ x, NoFuel (f x)) :
    NoFuel (match subC a b site with | .error e => .error e | .ok x => f x) := by
  cases h : subC a b site with
  | ok x => exact hf x
  | error e =>
    unfold subC at h
    split at h
    · cases h
    · injection h with h; subst h; exact fun h' => by cases h'

theorem paramSplitC_nofuel (content : Bytes) : NoFuel (paramSplitC content) := by
  unfold paramSplitC
  cases content.idxOf? 58 with
  | none => exact NoFuel.ok _
  | some p =>
    simp only
    apply sliceC_nofuel
    intro a
    apply sliceC_nofuel
    intro b
    exact NoFuel.ok _

theorem paramNameC_nofuel (name : Bytes) : NoFuel (paramNameC name) := by
  unfold paramNameC
  split
  · unfold sliceC; split <;> exact fun h => by cases h
  · exact NoFuel.ok _

theorem paramFinishC_nofuel (raw : Bytes) (cursor e len : Nat) (name0 : Bytes) (cons : Option Bytes) :
    NoFuel (paramFinishC raw cursor e len name0 cons) := by
  unfold paramFinishC
  split
  · exact NoFuel.terr _
  · simp only
    cases hn : paramNameC name0 with
    | error x => exact NoFuel.pass (paramNameC_nofuel name0) hn
    | ok name =>
      simp only
      repeat' split
      all_goals first | exact NoFuel.terr _ | exact NoFuel.ok _

theorem parseParamC_nofuel (raw : Bytes) (cursor : Nat) : NoFuel (parseParamC raw cursor) := by
  unfold parseParamC
  simp only
  cases hb : braceScanC raw (raw.length + 1) (cursor + 1) 1 with
  | error x => exact NoFuel.pass (braceScanC_nofuel raw _ _ _ (by omega)) hb
  | ok ec =>
    obtain ⟨e, count⟩ := ec
    simp only
    split
    · exact NoFuel.terr _
    · apply sliceC_nofuel
      intro content
      split
      · exact NoFuel.terr _
      · apply subC_nofuel
        intro d
        cases hsp : paramSplitC content with
        | error x => exact NoFuel.pass (paramSplitC_nofuel content) hsp
        | ok nc => obtain ⟨name, cons⟩ := nc; exact paramFinishC_nofuel _ _ _ _ _ _

theorem touchC_nofuel (raw : Bytes) (seen : List (Bytes × Nat × Nat)) (cursor next : Nat) : NoFuel (touchC raw seen cursor next) := by
  unfold touchC
  cases seen.getLast? with
  | none => exact NoFuel.ok _
  | some x =>
    obtain ⟨_, st, ln⟩ := x
    simp only
    split
    · apply subC_nofuel; intro d; exact NoFuel.terr _
    · exact NoFuel.ok _

theorem parseLoopC_nofuel (raw : Bytes) : ∀ fuel cursor seen parts, raw.length - cursor < fuel →
    NoFuel (parseLoopC raw fuel cursor seen parts) := by
  intro fuel
  induction fuel with
  | zero => intro _ _ _ h; omega
  | succ fuel ih =>
    intro cursor seen parts h
    simp only [parseLoopC]
    split
    · rename_i hlt
      rw [getB_ok hlt]
      simp only
      split
      · have hp := parseParamC_spec raw cursor hlt
        cases hpp : parseParamC raw cursor with
        | error x => exact NoFuel.pass (parseParamC_nofuel raw cursor) hpp
        | ok pn =>
          obtain ⟨part, next⟩ := pn
          have hnext := hp.2 part next hpp
          simp only
          cases ht : touchC raw seen cursor next with
          | error x => exact NoFuel.pass (touchC_nofuel raw seen cursor next) ht
          | ok u =>
            simp only
            apply subC_nofuel
            intro d
            split
            · split
              · exact NoFuel.terr _
              · exact ih _ _ _ (by omega)
            · exact ih _ _ _ (by omega)
      · rename_i h123
        split
        · exact NoFuel.terr _
        · rename_i h125
          cases hps : parseStaticC raw (raw.length + 1) cursor [] with
          | error x => exact NoFuel.pass (parseStaticC_nofuel raw _ _ _ (by omega)) hps
          | ok pn =>
            obtain ⟨pre, next⟩ := pn
            have := parseStaticC_progress raw raw.length cursor [] hlt h123 h125 pre next hps
            simp only
            exact ih _ _ _ (by omega)
    · exact NoFuel.ok _

theorem parseTemplateC_nofuel (raw : Bytes) : NoFuel (parseTemplateC raw) := by
  unfold parseTemplateC
  split
  · apply getB_nofuel
    intro b
    split
    · exact NoFuel.terr _
    · exact parseLoopC_nofuel raw _ 0 [] [] (by omega)
  · exact parseLoopC_nofuel raw _ 0 [] [] (by omega)

theorem mapExceptC_nofuel {α β} (f : α → Except CErr β) (hf : ∀ a, NoFuel (f a)) : ∀ (l : List α), NoFuel (mapExceptC f l)
  | [] => NoFuel.ok _
  | a :: as => by
    simp only [mapExceptC]
    cases hfa : f a with
    | error e => exact NoFuel.pass (hf a) hfa
    | ok b =>
      simp only
      cases hm : mapExceptC f as with
      | error e => exact NoFuel.pass (mapExceptC_nofuel f hf as) hm
      | ok bs => exact NoFuel.ok _

/-- the fuel given to the expander by `parseC`, `(n + 2)²`, is enough -/
theorem parseC_fuel_suffices (input : Bytes) : NoFuel (parseC input) := by
  unfold parseC
  split
  · exact NoFuel.terr _
  · have hfuel : needE (input.length - 0) ≤ (input.length + 2) * (input.length + 2) := by
      have := needE_le_sq input.length
      simp only [Nat.sub_zero]; omega
    cases hx : expandC input ((input.length + 2) * (input.length + 2)) 0 input.length with
    | error e => exact NoFuel.pass ((expand_nofuel input _).1 0 input.length (Nat.zero_le _) hfuel) hx
    | ok raws =>
      simp only
      apply mapExceptC_nofuel
      intro raw
      cases hp : parseTemplateC raw with
      | error e => exact NoFuel.pass (parseTemplateC_nofuel raw) hp
      | ok ps => exact NoFuel.ok _

/-- **The checked transcription is total in the useful sense**: for every input it answers with expansions or with a
`TemplateError` — never a panic, never exhausted fuel. -/
theorem parseC_total (input : Bytes) : (∃ ts, parseC input = .ok ts) ∨ (∃ e, parseC input = .error (.terr e)) := by
  cases h : parseC input with
  | ok ts => exact Or.inl ⟨ts, rfl⟩
  | error e =>
    cases e with
    | terr e => exact Or.inr ⟨e, rfl⟩
    | fuel => exact absurd h (parseC_fuel_suffices input)
    | panic s => exact absurd h (parseC_never_panics input s)

#print axioms parseC_total
