import Std.Data.HashMap
import Std.Data.HashSet
import Wayfind.Model.Router
import Wayfind.Model.CheckedParser
import Wayfind.Spec.FitsExec
import Wayfind.Spec.DrawingText
import Wayfind.Model.Regex
import Wayfind.Generated.Facts
import Wayfind.Spec.Greedy
import Wayfind.Spec.RefWalk
import Wayfind.Spec.Drawing
import Wayfind.Driver.Codec

/-! Replay of an operation file on the model, and the judge: correspondence with the implementation's output
stream plus the L0 oracles evaluated on the *implementation's* outputs.

The judge keeps, per router, a *spec registry* — the live `(template, data)` pairs as implied by the
implementation's own `ok` answers — and evaluates on it:

* `C01`  a reported match is live, reports one of its expansions, and `fitsCheck` holds for the parameters
* `C02`  `none` only when no live expansion `anyFits`
* `C03`  the result equals `refWalk` over the live expansions
* `C06`  across one successful mutation a result changes only on paths the mutated template fits
* `C08` / `C09`  outcome of insert / delete against the registry
* `C12`  single group-free template: parameters equal `greedy`
* `FUN`  every observation (search result, printed tree) is a function of the live set
         (C05 history independence, C10 failed calls / round trips, C16 clones, C18 read-only searches)
* `C07`  a `panic` line
-/
namespace Driver
open Std

structure LiveT where
  template : Bytes
  data : Nat
  exps : List (Bytes × List Part)

structure JR where
  model : Router
  live : List LiveT := []
  names : List Bytes := []                      -- constraint names the implementation accepted
  epoch : Nat := 0
  lastMut : Option (List (List Part)) := none
  prev : HashMap String (String × Nat) := {}

structure JS where
  routers : List (Nat × JR) := []
  obs : HashMap String (String × Nat) := {}
  stats : HashMap String Nat := {}
  nontrivial : HashSet String := {}
  out : Array String := #[]

def JS.bump (s : JS) (k : String) (n : Nat := 1) : JS := { s with stats := s.stats.insert k (s.stats.getD k 0 + n) }
def JS.emit (s : JS) (l : String) : JS := { s with out := s.out.push l }
def JS.get (s : JS) (r : Nat) : Option JR := (s.routers.find? (·.1 == r)).map (·.2)
def JS.set (s : JS) (r : Nat) (j : JR) : JS := { s with routers := (r, j) :: s.routers.filter (·.1 != r) }

def isCatchAll (parts : List Part) : Bool :=
  match parts.getLast? with
  | some (.par k _) => wildK k
  | _ => false

/-- routes of one live template; duplicate part lists inside one template collapse the way the tree does:
the later expansion overwrites, except for catch-alls, where the first stays -/
def routesOf (lt : LiveT) : List Route :=
  let multi := lt.exps.length > 1
  lt.exps.foldl (fun acc (raw, parts) =>
    let r : Route := ⟨parts, { template := lt.template, expanded := if multi then some raw else none,
                               data := lt.data, depth := countSlash raw, length := raw.length }⟩
    if acc.any (·.parts == parts) then
      (if isCatchAll parts then acc else acc.map (fun x => if x.parts == parts then r else x))
    else acc ++ [r]) []

def liveRoutes (live : List LiveT) : List Route := live.flatMap routesOf

def liveKey (live : List LiveT) : String :=
  let ks := live.map (fun lt => hex lt.template ++ ":" ++ toString lt.data)
  ",".intercalate (ks.toArray.qsort (· < ·)).toList

def resToMatch (r : Res) : Option Match := r.map (fun (i, ps) => ⟨i.template, i.expanded, i.data, ps⟩)

/-- an unescaped `(` while a brace is open -/
def groupInBraces : Bytes → Bool :=
  let rec go : Bytes → Nat → Bool
    | [], _ => false
    | 92 :: _ :: r, d => go r d
    | 123 :: r, d => go r (d + 1)
    | 125 :: r, d => go r (d - 1)
    | 40 :: r, d => if d > 0 then true else go r d
    | _ :: r, d => go r d
  fun t => go t 0

def endsInSpace (t : Bytes) : Bool :=
  match t.getLast? with
  | some b => b == 32 || b == 9 || b == 10 || b == 13 || b == 11 || b == 12 || b == 0xA0 || b == 0x83
  | none => false

/-- parse `match <t> <exp|.> <data> n=v…` -/
def parseMatchLine (l : String) : Option (Option Match) :=
  match l.splitOn " " with
  | ["none"] => some none
  | "match" :: t :: e :: d :: ps => do
    let t ← unhex t
    let e ← if e == "." then some none else (unhex e).map some
    let d ← d.toNat?
    let ps ← ps.mapM (fun p => match p.splitOn "=" with
      | [a, b] => do let a ← unhex a; let b ← unhex b; pure (a, b)
      | _ => none)
    pure (some ⟨t, e, d, ps⟩)
  | _ => none

def firstWord (l : String) (n : Nat := 1) : String := " ".intercalate ((l.splitOn " ").take n)

/-- strip the optional trailing ` R=<hex>` rendered-text field -/
def stripR (l : String) : String × Option String :=
  match l.splitOn " R=" with
  | [a, b] => (a, some b)
  | _ => (l, none)

/-- outcome of `insert` according to the spec registry -/
def specInsert (j : JR) (t : Bytes) : String :=
  match specParse t with
  | none => "err Template"
  | some ts =>
    match firstUnknown (fun c => j.names.contains c) ts with
    | some c => "err UnknownConstraint " ++ hex c
    | none =>
      let cs := j.live.filter (fun lt => lt.exps.any (fun e => ts.any (fun e' => e.2 == e'.2)))
      if cs.isEmpty then "ok"
      else "err Conflict " ++ hex t ++ " " ++ ",".intercalate ((dedupAdj (sortBytes (cs.map (·.template)))).map hex)

def owner (live : List LiveT) (parts : List Part) : Option LiveT :=
  live.find? (fun lt => lt.exps.any (fun e => e.2 == parts))

/-- outcome of `delete` according to the spec registry -/
def specDelete (j : JR) (t : Bytes) : String :=
  match specParse t with
  | none => "err Template"
  | some ts =>
    match j.live.find? (·.template == t) with
    | some lt => s!"ok {lt.data}"
    | none =>
      match ts.findSome? (fun e => owner j.live e.2) with
      | some lt => "err Mismatch " ++ hex t ++ " " ++ hex lt.template
      | none => "err NotFound " ++ hex t

/-- C14 on `err Template …` answers of insert/delete; C11: a template error exactly when the grammar rejects -/
def templateErrOracle (s : JS) (idx : Nat) (t : Bytes) (implCore : String) : JS :=
  if implCore.startsWith "err Template " then
    let s := if (specParse t).isSome then s.emit s!"O {idx} C11 template of the documented language rejected: {implCore}" else s
    match parseTErr ((implCore.splitOn " ").drop 2) with
    | some e =>
      let s := s.bump ("terr." ++ firstWord (showTErr e))
      if !faultPresent t e then s.emit s!"O {idx} C14 reported fault is not present in the template: {implCore}" else s
    | none => s.emit s!"O {idx} C14 unparsable template error {implCore}"
  else if (specParse t).isNone && !implCore.startsWith "panic" then
    s.emit s!"O {idx} C11 a template the grammar rejects was not answered with a template error: {implCore}"
  else s

def renderParts (parts : List Part) : String :=
  String.join (parts.map (fun p => match p with
    | .stat b => bytesToString b
    | .par k l => "{" ++ (if wildK k then "*" else "") ++ bytesToString l.name ++
        (if consK k then ":" ++ bytesToString l.cons else "") ++ "}"))

/-- C15 is checked on drawings whose labels cannot be confused with the drawing's own syntax (blanks in literal text are
fine: a line is glyphs, one blank, the label, and optionally " [*]") -/
def drawable (parts : List Part) : Bool :=
  parts.all (fun p => match p with
    | .stat b => b.all (fun c => c ≥ 32 && c < 127 && c != 123 && c != 125 && c != 91 && c != 93)
    | .par _ l => (l.name ++ l.cons).all (fun c => c > 32 && c < 127))


/-! ### C15 on the byte-exact structural dump of the implementation's tree (hook `tree_dump`) -/

structure DEnt where
  depth : Nat
  kind : String
  lab : Bytes
  cons : Bytes
  data : Bool

def parseDEnt (e : String) : Option DEnt :=
  match e.splitOn "," with
  | [d, k, l, c, m] => do
    let d ← d.toNat?
    let l ← unhex l
    let c ← unhex c
    if m == "D" then pure ⟨d, k, l, c, true⟩ else if m == "." then pure ⟨d, k, l, c, false⟩ else none
  | _ => none

/-- glue adjacent literal parts (a path read off the tree has its literal text split across nodes); same as `norm` of
`Spec/Norm.lean`, repeated here so that the driver does not import proof modules -/
def normP : List Part → List Part
  | [] => []
  | .stat a :: rest =>
    match normP rest with
    | .stat b :: r => .stat (a ++ b) :: r
    | r => .stat a :: r
  | .par k l :: rest => .par k l :: normP rest

def dummyInfo : Info := { template := [], data := 0, depth := 0, length := 0 }

/-- direct children of a node at depth `d` among the entries that follow it, each with its own sub-entries -/
def splitKids (fuel : Nat) (d : Nat) (ls : List DEnt) : List (DEnt × List DEnt) :=
  match fuel, ls with
  | 0, _ => []
  | _, [] => []
  | fuel + 1, l :: rest =>
    if l.depth != d + 1 then [] else
    let sub := rest.takeWhile (fun x => x.depth > l.depth)
    (l, sub) :: splitKids fuel d (rest.drop sub.length)

def kidsOfList : List (Label × Node) → Kids
  | [] => .nil
  | (l, n) :: r => .cons l n (kidsOfList r)

/-- rebuild a model tree (labels, order, marks) from the dump -/
def buildNode : Nat → DEnt → List DEnt → Node
  | 0, e, _ => .mk (if e.data then some dummyInfo else none) .nil .nil .nil .nil .nil .nil .nil false false false
  | fuel + 1, e, sub =>
    let kids := splitKids (sub.length + 1) e.depth sub
    let slot (k : String) : Kids :=
      kidsOfList ((kids.filter (fun c => c.1.kind == k)).map (fun c =>
        ((if k == "s" then { pre := c.1.lab } else { name := c.1.lab, cons := c.1.cons } : Label), buildNode fuel c.1 c.2)))
    .mk (if e.data then some dummyInfo else none) (slot "s") (slot "dc") (slot "d") (slot "wc") (slot "w") (slot "ec") (slot "e")
      false false false

def sortedLabels : List Label → Bool
  | a :: b :: r => Label.lt a b && sortedLabels (b :: r)
  | _ => true

def kidsLabels : Kids → List Label
  | .nil => []
  | .cons l _ r => l :: kidsLabels r

mutual
/-- the node-level clauses of C15 below a node; `isRoot` exempts the root of an empty router from "every leaf is marked" -/
def nodeClauses (isRoot : Bool) (what : String) : Node → List String
  | .mk x s dc d wc w ec e _ _ _ =>
    let leaf := s.isNil && dc.isNil && d.isNil && wc.isNil && w.isNil && ec.isNil && e.isNil
    (if leaf && x.isNone && !isRoot then [s!"leaf {what} is not marked"] else []) ++
    (if ((kidsLabels s).map (fun l => l.pre.head?)).eraseDups.length != (kidsLabels s).length then [s!"literal children of {what} share a first byte"] else []) ++
    (if (kidsLabels s).any (fun l => l.pre.isEmpty) then [s!"{what} has a literal child with an empty label"] else []) ++
    (if sortedLabels (kidsLabels s) && sortedLabels (kidsLabels dc) && sortedLabels (kidsLabels d) && sortedLabels (kidsLabels wc) &&
        sortedLabels (kidsLabels w) && sortedLabels (kidsLabels ec) && sortedLabels (kidsLabels e) then []
      else [s!"children of {what} are not in alphabetical order within their kind"]) ++
    kidsClauses true s ++ kidsClauses false dc ++ kidsClauses false d ++ kidsClauses false wc ++ kidsClauses false w ++
    kidsClauses false ec ++ kidsClauses false e
def kidsClauses (lit : Bool) : Kids → List String
  | .nil => []
  | .cons l n r =>
    (if lit && n.compress?.isSome then [s!"unmarked literal node {hex l.pre} has a single literal child and nothing else"] else []) ++
    nodeClauses false (if lit then hex l.pre else "{" ++ hex l.name ++ "}") n ++ kidsClauses lit r
end

/-- C15 on a structural dump against the live routes (part lists, byte-exact) -/
def checkDump (skeleton : String) (expected : List (List Part)) : List String :=
  match (skeleton.splitOn ";").mapM parseDEnt with
  | none => ["the structural dump cannot be parsed"]
  | some [] => ["empty structural dump"]
  | some (root :: rest) =>
    let n := buildNode (rest.length + 1) root rest
    let got := (Node.routes n).map (fun r => normP r.parts)
    let want := expected.eraseDups
    (if got.eraseDups.length != got.length then ["a marked path occurs twice"] else []) ++
    (match want.find? (fun k => !got.contains k) with | some k => [s!"live route {String.join (k.map showPart)} is not a marked path of the tree"] | none => []) ++
    (match got.find? (fun k => !want.contains k) with | some k => [s!"marked path {String.join (k.map showPart)} is not a live route"] | none => []) ++
    nodeClauses true "root" n

/-- the drawing (`Node.display`) of the tree rebuilt from a structural dump -/
def drawingOfDump (skeleton : String) : Option String :=
  match (skeleton.splitOn ";").mapM parseDEnt with
  | some (root :: rest) => some (Node.display (buildNode (rest.length + 1) root rest))
  | _ => none

def classOf (op : Op) : String :=
  match op with
  | .reset => "reset" | .new .. => "new" | .constraint .. => "constraint" | .insert .. => "insert"
  | .delete .. => "delete" | .search .. => "search" | .display _ => "display" | .dump _ => "dump" | .clone .. => "clone"
  | .drop _ => "drop" | .parse _ => "parse" | .nameck _ => "nameck" | .note => "note" | .bad _ => "bad"

/-- model step: returns the model's output line and the new model routers -/
def modelStep (routers : List (Nat × Router)) (op : Op) : List (Nat × Router) × String :=
  let get (r : Nat) := (routers.find? (·.1 == r)).map (·.2)
  let set (r : Nat) (x : Router) := (r, x) :: routers.filter (·.1 != r)
  match op with
  | .reset => ([], "ok")
  | .new r reg => (set r { registry := reg }, "ok")
  | .constraint r n t =>
    match get r with
    | none => (routers, "bad-router")
    | some x => let res := x.constraint n t
      (match res with | .ok x' => set r x' | .error _ => routers, showConstraint res)
  | .insert r t d =>
    match get r with
    | none => (routers, "bad-router")
    | some x => let res := x.insert t d
      (match res with | .ok x' => set r x' | .error _ => routers, showInsert res)
  | .delete r t =>
    match get r with
    | none => (routers, "bad-router")
    | some x => let (res, x') := x.delete t
      (set r x', showDelete res)
  | .search r p tb =>
    match get r with
    | none => (routers, "bad-router")
    | some x => (routers, showMatch (x.search (envOf tb) p))
  | .display r =>
    match get r with
    | none => (routers, "bad-router")
    | some x => (routers, "tree " ++ hex (strBytes x.display))
  | .dump r =>
    match get r with
    | none => (routers, "bad-router")
    | some x => (routers, showDump x.root)
  | .clone r r2 =>
    match get r with
    | none => (routers, "bad-router")
    | some x => (set r2 x.clone, "ok")
  | .drop r => (routers.filter (·.1 != r), "ok")
  | .parse t => (routers, showParsed (parseTemplates t))
  | .nameck n =>
    -- the OCI example's name constraint: the pattern literal of the source (this run's extraction), parsed and matched
    (routers, match parseRe Generated.ociNamePattern with
      | some r => if r.matches n then "accept" else "reject"
      | none => "pattern-unsupported")
  | .note => (routers, "ok")
  | .bad l => (routers, "bad-op " ++ l)

partial def replayLoop (h : IO.FS.Stream) (out : IO.FS.Stream) (routers : List (Nat × Router)) : IO Unit := do
  let line ← h.getLine
  if line.isEmpty then return ()
  let (routers', o) := modelStep routers (parseOp line)
  out.putStrLn o
  replayLoop h out routers'

def replay (ops : String) : IO Unit := do
  let h ← IO.FS.Handle.mk ops .read
  replayLoop (IO.FS.Stream.ofHandle h) (← IO.getStdout) []

/-- one judged step. `idx` = 0-based line number, `implLine` = the implementation's output for this operation -/
def judgeStep (s : JS) (models : List (Nat × Router)) (idx : Nat) (op : Op) (implLine : String) :
    JS × List (Nat × Router) :=
  let (models', modelLine) := modelStep models op
  let cls := classOf op
  let s := s.bump ("ops." ++ cls)
  let (implCore, implR) := stripR implLine
  let (modelCore, modelR) := stripR modelLine
  -- C07: panic
  let s := if implCore.startsWith "panic" then (s.emit s!"O {idx} C07 panic {implCore}").bump "panics" else s
  -- the structural dump: the skeleton (labels, order, marks) is compared; the hidden state (shortcut flags, dirty mark)
  -- is only counted, a rewrite of the code may legitimately keep other flags
  -- the stored info (`I=`: rank fields depth/length, template and expansion text of every routable node) is a stream of its
  -- own (class `stored`): C03 names depth and length as the ranking keys, C01/C04 the reported texts
  let (implCore, implI) := match implCore.splitOn " I=" with | [a, b] => (a, some b) | _ => (implCore, none)
  let (modelCore, modelI) := match modelCore.splitOn " I=" with | [a, b] => (a, some b) | _ => (modelCore, none)
  let s := match implI, modelI with
    | some a, some b =>
      if a == b then s.bump "dump.stored-info.equal" else (s.bump "dump.stored-info.differs").emit s!"D {idx} stored\t{a}\t{b}"
    | none, some _ => if cls == "dump" then s.bump "dump.stored-info.unavailable" else s
    | _, _ => s
  let (implCore, implF) := match implCore.splitOn " F=" with | [a, b] => (a, some b) | _ => (implCore, none)
  let (modelCore, modelF) := match modelCore.splitOn " F=" with | [a, b] => (a, some b) | _ => (modelCore, none)
  let s := match implF, modelF with
    | some a, some b =>
      if a == b then s.bump "dump.hidden-state.equal"
      else
        -- known deviation of the model: a catch-all child is built by the crate with `needs_optimization: false` and is
        -- never optimised (flags stay 000); the model builds it as a dirty leaf, which `optimize` then cleans (110).
        -- Nothing reads the flags of a catch-all node. Entries of kind e / ec are masked before the second comparison.
        let kinds := (implCore.splitOn ";").map (fun (e : String) => match e.splitOn "," with | _ :: k :: _ => k | _ => "")
        let mask (f : String) := ((f.splitOn ";").zip kinds).map (fun ((x, k) : String × String) => if k == "e" || k == "ec" then "---" else x)
        s.bump (if mask a == mask b then "dump.hidden-state.equal-but-catch-all-leaves" else "dump.hidden-state.differs")
    | _, _ => s
  let dumpOff := (cls == "dump" && implCore == "dump-unavailable") || (cls == "parse" && (implCore == "no-hook" || implCore == "accepted-no-hook"))
  let s := if dumpOff then s.bump (cls ++ ".unavailable") else s
  -- correspondence
  let s := if implCore != modelCore && !dumpOff then s.emit s!"D {idx} {cls}\t{implCore}\t{modelCore}" else s
  let s := match implR, modelR with
    | some a, some b =>
      -- two streams: the caret rendering of template errors (C14) and the messages of the route-table errors (C19)
      let rcls := if (implCore.splitOn " ").getD 1 "" == "Template" then "render-template" else "render"
      if a != b then s.emit s!"D {idx} {rcls}\t{a}\t{b}" else s.bump "rendered.compared"
    | _, _ => s
  let s := s.bump ("impl." ++ cls ++ "." ++ firstWord implCore (if implCore.startsWith "err" then 2 else 1))
  -- oracles on the implementation
  let s := match op with
    | .reset => { s with routers := [], obs := {} }
    | .new r reg => s.set r { model := {}, names := reg.map (·.1) }
    | .constraint r n _ =>
      match s.get r with
      | none => s
      | some j =>
        let expect := if j.names.contains n then "err" else "ok"
        let s := if firstWord implCore != expect then s.emit s!"O {idx} C13 constraint outcome: expected {expect} got {implCore}" else s
        if implCore == "ok" then s.set r { j with names := j.names ++ [n] } else s
    | .insert r t d =>
      match s.get r with
      | none => s
      | some j =>
        let expect := specInsert j t
        let s := { s with nontrivial := s.nontrivial.insert ("mut|" ++ liveKey j.live ++ "#i" ++ hex t) }
        let ok := if expect == "err Template" then implCore.startsWith "err Template" else implCore == expect
        let s := if !ok then s.emit s!"O {idx} C08 insert outcome: expected [{expect}] got [{implCore}]" else s
        let s := templateErrOracle s idx t implCore
        if implCore == "ok" then
          match specParse t with
          | some ts =>
            -- shape cells of the accepted templates (generator coverage, printed into the evidence)
            let s := if groupInBraces t then s.bump "shape.group-inside-braces" else s
            let s := if endsInSpace t then s.bump "shape.ends-in-white-space" else s
            let s := if (ts.map (·.2)).eraseDups.length < ts.length then s.bump "shape.coinciding-expansions" else s
            let s := if ts.length > 1 then s.bump "shape.grouped" else s
            let s := if t.any (· ≥ 128) then s.bump "shape.multibyte" else s
            let s := if t.contains 92 then s.bump "shape.escaped" else s
            s.set r { j with live := j.live ++ [⟨t, d, ts⟩], epoch := j.epoch + 1, lastMut := some (ts.map (·.2)) }
          | none => s.emit s!"O {idx} C11 insert accepted a template the grammar rejects"
        else s
    | .delete r t =>
      match s.get r with
      | none => s
      | some j =>
        let expect := specDelete j t
        let s := { s with nontrivial := s.nontrivial.insert ("mut|" ++ liveKey j.live ++ "#d" ++ hex t) }
        let ok := if expect == "err Template" then implCore.startsWith "err Template" else implCore == expect
        let s := if !ok then s.emit s!"O {idx} C09 delete outcome: expected [{expect}] got [{implCore}]" else s
        let s := templateErrOracle s idx t implCore
        if implCore.startsWith "ok" then
          match j.live.find? (·.template == t) with
          | some lt => s.set r { j with live := j.live.filter (·.template != t), epoch := j.epoch + 1, lastMut := some (lt.exps.map (·.2)) }
          | none => s
        else s
    | .clone r r2 =>
      match s.get r with
      | none => s
      | some j => s.set r2 { j with prev := {}, lastMut := none }
    | .drop r => { s with routers := s.routers.filter (·.1 != r) }
    | .parse t =>
      -- the checked, position-based transcription must give what the list-based one gives (C07's tie)
      let s := if agreeC (parseC t) (parseTemplates t) then s.bump "checked.agree"
        else s.emit s!"D {idx} checked\t{implCore}\tthe checked transcription of the parser disagrees with the list-based model"
      let spec := specParse t
      let s := s.bump (if spec.isSome then "parse.accepted" else "parse.rejected")
      let s := { s with nontrivial := s.nontrivial.insert ((if spec.isSome then (if (spec.getD []).length > 1 then "groups|" else "accepted|") else "rejected|") ++ hex t) }
      if implCore == "accepted-no-hook" then
        -- without the hook only acceptance is visible (through `insert` on a router that knows nothing)
        if spec.isNone then s.emit s!"O {idx} C11 parser accepts a template the grammar rejects" else s.bump "parse.accepted-no-hook"
      else if implCore.startsWith "ok" then
        let s := if spec.isNone then s.emit s!"O {idx} C11 parser accepts a template the grammar rejects" else s
        if spec.isSome && showSpecParsed spec != implCore then
          let rawsOf (l : String) := ((l.drop 3).toString.splitOn ";").map (fun e => (e.splitOn "|").headD "")
          if rawsOf (showSpecParsed spec) != rawsOf implCore then s.emit s!"O {idx} C04 expansions differ from the specification: [{showSpecParsed spec}]"
          else s.emit s!"O {idx} C11 decoded parts differ from the specification: [{showSpecParsed spec}]"
        else s
      else if implCore.startsWith "err" then
        let s := if spec.isSome then s.emit s!"O {idx} C11 parser rejects a template of the documented language" else s
        match parseTErr ((implCore.splitOn " ").drop 1) with
        | some e =>
          let s := s.bump ("terr." ++ firstWord (showTErr e))
          if !faultPresent t e then s.emit s!"O {idx} C14 reported fault is not present in the template: {implCore}" else s
        | none => s.emit s!"O {idx} C14 unparsable template error {implCore}"
      else s
    | .note => s
    | .nameck n =>
      -- oracle: the syntax tree that `Proofs/Regex2` proves equal to the distribution-spec grammar
      let want := if OciNameRe.nameRe.matches n then "accept" else "reject"
      let s := s.bump ("nameck." ++ want)
      if implCore == "accept" || implCore == "reject" then
        if implCore != want then s.emit s!"O {idx} C17 the name constraint answers {implCore} for {hex n}, the repository-name grammar says {want}" else s
      else s
    | .bad _ => s.emit s!"O {idx} BAD unparsable operation line"
    | .display r =>
      match s.get r with
      | none => s
      | some j =>
        let routes := liveRoutes j.live
        let s := if implCore.startsWith "tree " && routes.all (fun rt => drawable rt.parts) then
            match unhex ((implCore.drop 5).toString) with
            | some bytes =>
              let errs := checkDrawing (bytesToString bytes) (routes.map (fun rt => renderParts rt.parts))
              let s := s.bump "c15.checked"
              let s := if routes.length ≥ 3 then { s with nontrivial := s.nontrivial.insert ("tree|" ++ liveKey j.live) } else s
              match errs with
              | [] => s
              | e :: _ => s.emit s!"O {idx} C15 {e}"
            | none => s
          else s.bump "c15.skipped"
        -- premise of the text theorems (C15_printed_*): evaluated on the model's tree
        let s := match models'.find? (·.1 == r) with
          | some (_, mr) => if Node.drawable mr.root then s.bump "c15.drawable-model-tree" else s.bump "c15.undrawable-model-tree"
          | none => s
        let key := liveKey j.live ++ "#tree"
        -- remembered for the `dump` that follows: the printed tree must be the drawing of the dumped nodes
        let s := { s with obs := s.obs.insert ("#lastdisplay#" ++ toString r) (implCore, idx) }
        match s.obs.get? key with
        | some (prevLine, pidx) =>
          if prevLine != implCore then s.emit s!"O {idx} FUN tree differs from op {pidx} with the same live set" else s.bump "fun.tree.repeat"
        | none => { s with obs := s.obs.insert key (implCore, idx) }
    | .dump r =>
      match s.get r with
      | none => s
      | some j =>
        if !implCore.startsWith "dump " then s else
        let skel := (implCore.drop 5).toString
        let errs := checkDump skel ((liveRoutes j.live).map (·.parts))
        let s := s.bump "c15.dump.checked"
        let s := match errs with
          | [] => s
          | e :: _ => s.emit s!"O {idx} C15 structural dump: {e}"
        -- text level, every alphabet: the tree printed by the preceding `display` is the drawing (src/node/display.rs as
        -- modelled by `Node.display`, labels rendered with from_utf8_lossy) of exactly these nodes
        let s := match s.obs.get? ("#lastdisplay#" ++ toString r) with
          | some (tree, pidx) =>
            if pidx + 1 == idx && tree.startsWith "tree " then
              match drawingOfDump skel with
              | some text =>
                if "tree " ++ hex (strBytes text) == tree then s.bump "c15.text-is-drawing-of-dump"
                else s.emit s!"O {idx} C15 the printed tree (op {pidx}) is not the drawing of the tree's own nodes: printed {tree.drop 5}, nodes draw as {hex (strBytes text)}"
              | none => s
            else s
          | none => s
        let key := liveKey j.live ++ "#dump"
        match s.obs.get? key with
        | some (prevLine, pidx) =>
          if prevLine != implCore then s.emit s!"O {idx} FUN structural dump differs from op {pidx} with the same live set" else s.bump "fun.dump.repeat"
        | none => { s with obs := s.obs.insert key (implCore, idx) }
    | .search r path tb =>
      match s.get r with
      | none => s
      | some j =>
        let env := envOf tb
        let routes := liveRoutes j.live
        let fitting := routes.filter (fun rt => anyFits env rt.parts path)
        let nfit := fitting.length
        let s := s.bump (if nfit == 0 then "search.fit0" else if nfit == 1 then "search.fit1" else "search.fit2+")
        let lk := liveKey j.live
        let s := if nfit ≥ 2 then { s with nontrivial := s.nontrivial.insert ("fit2|" ++ lk ++ "#" ++ hex path) } else s
        match parseMatchLine implCore with
        | none => if implCore.startsWith "panic" then s else s.emit s!"O {idx} C01 unparsable search result {implCore}"
        | some none =>
          -- C02
          let s := if nfit > 0 then s.emit s!"O {idx} C02 none although {nfit} live route(s) fit" else s
          -- C12: a single group-free template whose leftmost-longest assignment exists must report it
          let s := match j.live with
            | [lt] => (match lt.exps with
              | [(_, parts)] => if (greedy env parts path).isSome then s.emit s!"O {idx} C12 no match although the leftmost-longest assignment exists" else s
              | _ => s)
            | _ => s
          let s := match resToMatch (refWalk env path.length routes path []) with
            | none => s | some _ => s.emit s!"O {idx} C03 walk finds a match, implementation none"
          funObs (c06 s j env) lk
        | some (some m) =>
          -- C01
          let s := match j.live.find? (·.template == m.template) with
            | none => s.emit s!"O {idx} C01 reported template is not live"
            | some lt =>
              let s := if lt.data != m.data then s.emit s!"O {idx} C01 wrong data" else s
              let cand := lt.exps.filter (fun e =>
                (if lt.exps.length > 1 then m.expanded == some e.1 else m.expanded == none))
              if cand.isEmpty then s.emit s!"O {idx} C01 reported expansion is not an expansion of the template"
              else if !cand.any (fun e => fitsCheck env e.2 path m.params) then
                s.emit s!"O {idx} C01 parameters do not lay the expansion over the path"
              else s
          -- C03
          let expect := showMatch (resToMatch (refWalk env path.length routes path []))
          let s := if expect != implCore then s.emit s!"O {idx} C03 walk gives [{expect}]" else s
          -- C12
          let s := match j.live with
            | [lt] => (match lt.exps with
              | [(_, parts)] =>
                let s := s.bump "c12.single"
                let s := if countFits env parts path ≥ 2 then
                  { (s.bump "c12.ambiguous") with nontrivial := s.nontrivial.insert ("ambiguous|" ++ hex lt.template ++ "#" ++ hex path) } else s
                if greedy env parts path != some m.params then s.emit s!"O {idx} C12 not the leftmost-longest assignment" else s
              | _ => s)
            | _ => s
          funObs (c06 s j env) lk
  (s, models')
where
  /-- C06 / same-epoch check against this router's previous observation of the same path -/
  c06 (s : JS) (j : JR) (env : Env) : JS :=
    match op with
    | .search r path _ =>
      let key := hex path
      let (implCore, _) := stripR implLine
      let s := match j.prev.get? key with
        | some (prevLine, ep) =>
          if ep == j.epoch then
            (if prevLine != implCore then s.emit s!"O {idx} FUN result changed without a mutation" else s.bump "fun.search.repeat")
          else if ep + 1 == j.epoch then
            match j.lastMut with
            | some exps =>
              if exps.any (fun ps => anyFits env ps path) then s.bump "c06.fits"
              else if prevLine != implCore then s.emit s!"O {idx} C06 result changed although the mutated template does not fit: before [{prevLine}]"
              else s.bump "c06.unaffected"
            | none => s
          else s
        | none => s
      s.set r { j with prev := j.prev.insert key (implCore, j.epoch) }
    | _ => s
  funObs (s : JS) (lk : String) : JS :=
    match op with
    | .search _ path _ =>
      let (implCore, _) := stripR implLine
      let key := lk ++ "#" ++ hex path
      match s.obs.get? key with
      | some (prevLine, pidx) =>
        if prevLine != implCore then s.emit s!"O {idx} FUN result differs from op {pidx} with the same live set: [{prevLine}]"
        else s.bump "fun.search.same-live-set"
      | none => { s with obs := s.obs.insert key (implCore, idx) }
    | _ => s

partial def judgeLoop (hop himpl : IO.FS.Stream) (out : IO.FS.Stream) (s : JS) (models : List (Nat × Router)) (idx : Nat) : IO JS := do
  let line ← hop.getLine
  if line.isEmpty then return s
  let il ← himpl.getLine
  let (s, models) := judgeStep s models idx (parseOp line) il.trimAscii.toString
  for l in s.out do out.putStrLn l
  judgeLoop hop himpl out { s with out := #[] } models (idx + 1)

def judge (ops impl : String) : IO Unit := do
  let h1 ← IO.FS.Handle.mk ops .read
  let h2 ← IO.FS.Handle.mk impl .read
  let out ← IO.getStdout
  let s ← judgeLoop (IO.FS.Stream.ofHandle h1) (IO.FS.Stream.ofHandle h2) out {} [] 0
  for (k, v) in s.stats.toList do out.putStrLn s!"S {k} {v}"
  let cats := s.nontrivial.fold (fun (m : HashMap String Nat) k =>
    let c := (k.splitOn "|").headD ""
    m.insert c (m.getD c 0 + 1)) {}
  for (k, v) in cats.toList do out.putStrLn s!"S nt.{k} {v}"

end Driver
