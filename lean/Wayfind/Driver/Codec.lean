import Wayfind.Model.Router
import Wayfind.Model.Messages
import Wayfind.Spec.Grammar
import Wayfind.Spec.Fault
import Wayfind.Model.Errors

/-! Text codec of the line protocol (hex byte strings, canonical result lines). Trusted glue, no theorems. -/
namespace Driver

def hexVal (c : Char) : Option Nat :=
  if '0' ≤ c ∧ c ≤ '9' then some (c.toNat - '0'.toNat)
  else if 'a' ≤ c ∧ c ≤ 'f' then some (c.toNat - 'a'.toNat + 10) else none

def unhexL : List Char → Option Bytes
  | [] => some []
  | a :: b :: rest => do
    let x ← hexVal a; let y ← hexVal b; let t ← unhexL rest
    pure (UInt8.ofNat (x * 16 + y) :: t)
  | _ => none

/-- `-` is the empty byte string -/
def unhex (s : String) : Option Bytes := if s == "-" then some [] else unhexL s.toList

def hexDigit (n : Nat) : Char := if n < 10 then Char.ofNat (48 + n) else Char.ofNat (87 + n)
def hex (b : Bytes) : String :=
  if b.isEmpty then "-" else String.ofList (b.flatMap (fun x => [hexDigit (x.toNat / 16), hexDigit (x.toNat % 16)]))

def strBytes (s : String) : Bytes := s.toUTF8.toList

def showPart : Part → String
  | .stat p => "S" ++ hex p
  | .par k l => "P" ++ (match k with | .dyn => "d" | .dynC => "D" | .wild => "w" | .wildC => "W") ++ hex l.name ++ ":" ++ hex l.cons

def showTErr : TErr → String
  | .empty => "Empty"
  | .missingLeadingSlash t => s!"MissingLeadingSlash {hex t}"
  | .emptyBraces t p => s!"EmptyBraces {hex t} {p}"
  | .unbalancedBrace t p => s!"UnbalancedBrace {hex t} {p}"
  | .emptyParentheses t p => s!"EmptyParentheses {hex t} {p}"
  | .unbalancedParenthesis t p => s!"UnbalancedParenthesis {hex t} {p}"
  | .emptyParameter t a b => s!"EmptyParameter {hex t} {a} {b}"
  | .invalidParameter t n a b => s!"InvalidParameter {hex t} {hex n} {a} {b}"
  | .duplicateParameter t n a b c d => s!"DuplicateParameter {hex t} {hex n} {a} {b} {c} {d}"
  | .emptyWildcard t a b => s!"EmptyWildcard {hex t} {a} {b}"
  | .emptyConstraint t a b => s!"EmptyConstraint {hex t} {a} {b}"
  | .invalidConstraint t n a b => s!"InvalidConstraint {hex t} {hex n} {a} {b}"
  | .touchingParameters t a b => s!"TouchingParameters {hex t} {a} {b}"

/-- inverse of `showTErr` on the words after `err` / `err Template` -/
def parseTErr (ws : List String) : Option TErr :=
  match ws with
  | ["Empty"] => some .empty
  | ["MissingLeadingSlash", t] => (unhex t).map .missingLeadingSlash
  | [v, t, p] => do
    let t ← unhex t; let p ← p.toNat?
    match v with
    | "EmptyBraces" => some (.emptyBraces t p)
    | "UnbalancedBrace" => some (.unbalancedBrace t p)
    | "EmptyParentheses" => some (.emptyParentheses t p)
    | "UnbalancedParenthesis" => some (.unbalancedParenthesis t p)
    | _ => none
  | [v, t, a, b] => do
    let t ← unhex t; let a ← a.toNat?; let b ← b.toNat?
    match v with
    | "EmptyParameter" => some (.emptyParameter t a b)
    | "EmptyWildcard" => some (.emptyWildcard t a b)
    | "EmptyConstraint" => some (.emptyConstraint t a b)
    | "TouchingParameters" => some (.touchingParameters t a b)
    | _ => none
  | [v, t, n, a, b] => do
    let t ← unhex t; let n ← unhex n; let a ← a.toNat?; let b ← b.toNat?
    match v with
    | "InvalidParameter" => some (.invalidParameter t n a b)
    | "InvalidConstraint" => some (.invalidConstraint t n a b)
    | _ => none
  | ["DuplicateParameter", t, n, a, b, c, d] => do
    let t ← unhex t; let n ← unhex n; let a ← a.toNat?; let b ← b.toNat?; let c ← c.toNat?; let d ← d.toNat?
    some (.duplicateParameter t n a b c d)
  | _ => none

def showSpecParsed (r : Option (List (Bytes × List Part))) : String :=
  match r with
  | none => "reject"
  | some ts => "ok " ++ ";".intercalate (ts.map (fun (raw, ps) => hex raw ++ "|" ++ ",".intercalate (ps.map showPart)))

def showParsed (r : Except TErr (List (Bytes × List Part))) : String :=
  match r with
  | .error e => "err " ++ showTErr e ++ " R=" ++ hex e.render
  | .ok ts => "ok " ++ ";".intercalate (ts.map (fun (raw, ps) => hex raw ++ "|" ++ ",".intercalate (ps.map showPart)))

def showInsert : Except InsertErr Router → String
  | .ok _ => "ok"
  | .error (.template e) => "err Template " ++ showTErr e ++ " R=" ++ hex e.render
  | .error (.unknownConstraint c) => "err UnknownConstraint " ++ hex c ++ " R=" ++ hex (renderUnknownConstraint c)
  | .error (.conflict t cs) => "err Conflict " ++ hex t ++ " " ++ ",".intercalate (cs.map hex) ++ " R=" ++ hex (renderConflict t cs)

def showDelete : Except DeleteErr Nat → String
  | .ok d => s!"ok {d}"
  | .error (.template e) => "err Template " ++ showTErr e ++ " R=" ++ hex e.render
  | .error (.notFound t) => "err NotFound " ++ hex t ++ " R=" ++ hex (renderNotFound t)
  | .error (.mismatch t i) => "err Mismatch " ++ hex t ++ " " ++ hex i ++ " R=" ++ hex (renderMismatch t i)

def showConstraint : Except ConstraintErr Router → String
  | .ok _ => "ok"
  | .error (.duplicateName n a b) => s!"err DuplicateName {hex n} {hex a} {hex b} R={hex (renderDuplicateName n a b)}"

def showMatch : Option Match → String
  | none => "none"
  | some m => s!"match {hex m.template} {match m.expanded with | some e => hex e | none => "."} {m.data}" ++
      String.join (m.params.map (fun (a, b) => " " ++ hex a ++ "=" ++ hex b))

/-- operations of the protocol -/
inductive Op where
  | reset
  | new (r : Nat) (builtins : List (Bytes × Bytes))
  | constraint (r : Nat) (name ty : Bytes)
  | insert (r : Nat) (t : Bytes) (d : Nat)
  | delete (r : Nat) (t : Bytes)
  | search (r : Nat) (path : Bytes) (table : List (Bytes × List Bytes))
  | display (r : Nat)
  | dump (r : Nat)
  | clone (r r2 : Nat)
  | drop (r : Nat)
  | parse (t : Bytes)
  | nameck (n : Bytes)
  | note
  | bad (line : String)

/-- `name=v1,v2;name2=...` : per constraint name the accepted substrings of the path -/
def parseTable (s : String) : Option (List (Bytes × List Bytes)) :=
  if s == "." then some [] else
  (s.splitOn ";").mapM (fun ent =>
    match ent.splitOn "=" with
    | [n, vs] => do
      let nb ← unhex n
      let vals ← if vs.isEmpty then some [] else (vs.splitOn ",").mapM unhex
      pure (nb, vals)
    | _ => none)

def parseOp (line : String) : Op :=
  let bad := Op.bad line
  if line.startsWith "#" then .note else
  match line.trimAscii.toString.splitOn " " with
  | ["reset"] => .reset
  | ["new", r, bs] =>
    let reg := if bs == "." then some [] else (bs.splitOn ",").mapM (fun e =>
      match e.splitOn ":" with
      | [n, t] => do let n ← unhex n; let t ← unhex t; pure (n, t)
      | _ => none)
    match r.toNat?, reg with | some r, some reg => .new r reg | _, _ => bad
  | ["constraint", r, n, t] =>
    match r.toNat?, unhex n, unhex t with | some r, some n, some t => .constraint r n t | _, _, _ => bad
  | ["insert", r, t, d] =>
    match r.toNat?, unhex t, d.toNat? with | some r, some t, some d => .insert r t d | _, _, _ => bad
  | ["delete", r, t] => match r.toNat?, unhex t with | some r, some t => .delete r t | _, _ => bad
  | ["search", r, p, tb] =>
    match r.toNat?, unhex p, parseTable tb with | some r, some p, some tb => .search r p tb | _, _, _ => bad
  | ["display", r] => match r.toNat? with | some r => .display r | none => bad
  | ["dump", r] => match r.toNat? with | some r => .dump r | none => bad
  | ["clone", r, r2] => match r.toNat?, r2.toNat? with | some r, some r2 => .clone r r2 | _, _ => bad
  | ["drop", r] => match r.toNat? with | some r => .drop r | none => bad
  | ["parse", t] => match unhex t with | some t => .parse t | none => bad
  | ["nameck", n] => match unhex n with | some n => .nameck n | none => bad
  | _ => bad

def envOf (table : List (Bytes × List Bytes)) : Env :=
  ⟨fun name v => match table.find? (·.1 == name) with
      | some e => e.2.contains v
      | none => false,
   utf8Valid⟩


/-! structural dump of the model tree in the format of the hook's `tree_dump`: one entry per node in stored order,
`depth,kind,label,constraint,has-data` (skeleton) and the two shortcut flags plus the dirty mark (hidden state) -/
mutual
def nodeDump (depth : Nat) (kind : String) (lab cons : Bytes) : Node → List (String × String × Option String)
  | .mk x s dc d wc w ec e ds ws dirty =>
    (s!"{depth},{kind},{hex lab},{hex cons},{if x.isSome then "D" else "."}",
      s!"{if ds then 1 else 0}{if ws then 1 else 0}{if dirty then 1 else 0}",
      x.map (fun i => s!"{i.depth}:{i.length}:{hex i.template}:{match i.expanded with | some e => hex e | none => "~"}")) ::
    (kidsDump (depth + 1) "s" s ++ kidsDump (depth + 1) "dc" dc ++ kidsDump (depth + 1) "d" d ++
     kidsDump (depth + 1) "wc" wc ++ kidsDump (depth + 1) "w" w ++ kidsDump (depth + 1) "ec" ec ++ kidsDump (depth + 1) "e" e)
def kidsDump (depth : Nat) (kind : String) : Kids → List (String × String × Option String)
  | .nil => []
  | .cons l n r =>
    nodeDump depth kind (if kind == "s" then l.pre else l.name) (if kind == "dc" || kind == "wc" || kind == "ec" then l.cons else []) n
      ++ kidsDump depth kind r
end

/-- `dump <skeleton> F=<hidden state> I=<stored info>`: the stored info lists, for every node that holds data in stored
order, `depth:length:template:expanded` (hook `data_dump`) -/
def showDump (root : Node) : String :=
  let ls := nodeDump 0 "root" [] [] root
  "dump " ++ ";".intercalate (ls.map (·.1)) ++ " F=" ++ ";".intercalate (ls.map (·.2.1)) ++
    " I=" ++ ";".intercalate (ls.filterMap (·.2.2))

end Driver
