import Wayfind.Proofs.Reachable
import Wayfind.Proofs.FitsFacts
import Wayfind.Proofs.Registry5

/-! # C01 — every match is genuine

`C01_match_genuine`: on every router reachable through the API (any sequence of `constraint`, `insert`, `delete`
calls, successful or failing, after `Router::new`), a search result names a route stored in the tree — its
template text, expansion text and data are those stored with that route — and the returned parameters lay that
route over the path (`Fits`), for every constraint environment.
`C01_fits_reconstructs`: what `Fits` means in the property's words — substituting the values for the parameters
reproduces the path byte for byte, the names are the expansion's names in order, every value is non-empty and valid
UTF-8, dynamic values contain no '/', every constrained value is accepted.
Status: proved, on stored routes (`C01_match_genuine`) and on live templates (`C01_match_is_live_template`), for
every history — including templates two of whose expansions have the same parts (`((/a))`, `(/a)(/a)`,
`(/a)(/\\a)`): the later expansion overwrites the earlier one, a catch-all keeps the earlier one (`pick`). -/

theorem C01_match_genuine (env : Env) (r : Router) (h : Reachable r) (path : Bytes) (m : Match)
    (hm : r.search env path = some m) :
    ∃ rt ∈ Node.routes r.root, rt.info.template = m.template ∧ rt.info.expanded = m.expanded ∧ rt.info.data = m.data ∧
      Fits env rt.parts path m.params := by
  rw [Router.search_eq_walk env r h path] at hm
  cases hw : refWalk env path.length (Node.routes r.root) path [] with
  | none => rw [hw] at hm; cases hm
  | some x =>
    obtain ⟨i, ps⟩ := x
    rw [hw] at hm
    simp only [Option.map_some, Option.some.injEq, toMatch] at hm
    obtain ⟨rt, hr, hi, vs, hf, hps⟩ := refWalk_sound env _ _ _ _ _ _ hw
    subst hm
    exact ⟨rt, hr, by rw [hi], by rw [hi], by rw [hi], by simpa [hps] using hf⟩

theorem C01_fits_reconstructs (env : Env) (parts : List Part) (path : Bytes) (vs : Params) (h : Fits env parts path vs) :
    instantiate parts vs = some path ∧ paramNames parts = vs.map Prod.fst ∧
    (∀ v ∈ vs.map Prod.snd, v ≠ [] ∧ env.valid v = true) ∧ valuesOk env parts vs :=
  fits_reconstructs env h

/-- non-vacuity: a tree built by inserts, a path with several assignments, and the genuine match -/
example : Node.search envT tw [47,97,47,109,47,98,47,109] [] = some (iw, [([119],[97,47,109,47,98])]) := by decide

/-- **On live templates.** `Live r L`: `r` was reached from `Router::new` by any sequence of calls and `L` is the list
of templates inserted and not deleted since. A match reports a live template, the data inserted with it, one of its
expansions (as `expanded`, or `none` when the template has no groups), and parameters that lay exactly that expansion
over the path. -/
theorem C01_match_is_live_template (env : Env) (r : Router) (L : List LiveT) (h : Live r L) (path : Bytes) (m : Match)
    (hm : r.search env path = some m) :
    ∃ lt ∈ L, ∃ e ∈ lt.exps, m.template = lt.template ∧ m.data = lt.data ∧
      m.expanded = (if lt.exps.length > 1 then some e.1 else none) ∧ Fits env e.2 path m.params :=
  search_genuine env h path m hm
