import Wayfind.Proofs.Reach
import Wayfind.Proofs.FitsFacts

/-! # C01 — every match is genuine

`C01_match_genuine_tree`: on every tree reachable by router-level inserts and deletes, a search result names a
route stored in the tree and the returned parameters lay that route over the path (`Fits`).
`C01_fits_reconstructs`: what `Fits` means, spelled out as the property words it — substituting the values for the
parameters reproduces the path byte for byte, names are the expansion's names in order, values are non-empty,
dynamic values contain no '/', values are valid UTF-8 and every constrained value is accepted.
Status: **partial** — stated on the tree layer (`Node.routes`); the identification of the tree's routes with the
expansions of the live templates (template text, data, `expanded`) is the Router-level registry invariant. -/

theorem C01_match_genuine_tree (env : Env) (ops : List ROp) (hw : ∀ op ∈ ops, op.wf) (path : Bytes) (i : Info) (ps : Params) :
    Node.search env (ops.foldl applyROp Node.empty) path [] = some (i, ps) →
    ∃ r ∈ Node.routes (ops.foldl applyROp Node.empty), r.info = i ∧ Fits env r.parts path ps :=
  (reachable_search env ops hw path).2.1 i ps

theorem C01_fits_reconstructs (env : Env) (parts : List Part) (path : Bytes) (vs : Params) (h : Fits env parts path vs) :
    instantiate parts vs = some path ∧ paramNames parts = vs.map Prod.fst ∧
    (∀ v ∈ vs.map Prod.snd, v ≠ [] ∧ env.valid v = true) ∧ valuesOk env parts vs :=
  fits_reconstructs env h

/-- non-vacuity: a reachable tree, a path with several assignments, and the genuine match -/
example : Node.search envT tw [47,97,47,109,47,98,47,109] [] = some (iw, [([119],[97,47,109,47,98])]) := by decide
