import Wayfind.Model.Router
import Wayfind.Generated.Facts

/-! # C18 — searching is read-only, so concurrent searches equal sequential ones
In the model `search` is a function of the router state and produces no new state. For an explicit interleaving
semantics — a schedule is any sequence of `(thread, path)` search calls issued against one shared router — every call
of every schedule returns the single-threaded result, and the router after the schedule is the router before it.
The proof is short *because* the state is immutable under search; that is the content.
Status: **partial** — `Send`/`Sync` are facts of Rust's type system and data-race freedom is a fact about compiled
code: tied by a compile-time assertion in the harness (generic in `T`), and by running 8 threads against one shared
real router in every run, comparing with the sequential answers and with the state observed afterwards. -/

/-- one scheduled search call: the state is threaded through unchanged -/
def searchStep (env : Env) (r : Router) (call : Nat × Bytes) : Router × Option Match := (r, r.search env call.2)

def runSchedule (env : Env) (r : Router) : List (Nat × Bytes) → Router × List (Nat × Option Match)
  | [] => (r, [])
  | c :: cs =>
    let (r', out) := searchStep env r c
    let (r'', outs) := runSchedule env r' cs
    (r'', (c.1, out) :: outs)

theorem C18_search_readonly (env : Env) (r : Router) (sched : List (Nat × Bytes)) :
    (runSchedule env r sched).1 = r ∧
    (runSchedule env r sched).2 = sched.map (fun c => (c.1, r.search env c.2)) := by
  induction sched with
  | nil => exact ⟨rfl, rfl⟩
  | cons c cs ih =>
    simp only [runSchedule, searchStep, List.map_cons]
    exact ⟨ih.1, by rw [ih.2]⟩

/-- any two schedules give each (thread, path) call the same answer -/
theorem C18_schedule_independent (env : Env) (r : Router) (s1 s2 : List (Nat × Bytes)) (c : Nat × Bytes)
    (o1 o2 : Option Match) (h1 : (c.1, o1) ∈ (runSchedule env r (s1 ++ [c])).2) (h2 : (c.1, o2) ∈ (runSchedule env r (s2 ++ [c])).2)
    (hu1 : ∀ x ∈ s1, x.1 ≠ c.1) (hu2 : ∀ x ∈ s2, x.1 ≠ c.1) : o1 = o2 := by
  rw [(C18_search_readonly env r _).2] at h1 h2
  simp only [List.map_append, List.map_cons, List.map_nil, List.mem_append, List.mem_map, List.mem_singleton] at h1 h2
  have e1 : o1 = r.search env c.2 := by
    rcases h1 with ⟨x, hx, he⟩ | he
    · injection he with ha hb; exact absurd ha (hu1 x hx)
    · injection he
  have e2 : o2 = r.search env c.2 := by
    rcases h2 with ⟨x, hx, he⟩ | he
    · injection he with ha hb; exact absurd ha (hu2 x hx)
    · injection he
  rw [e1, e2]

/-- generated obligations: safe Rust only, no interior mutability or global state in src/, `search` takes `&self` —
the bridge from the model's purity to the code: a `&self` method of such a type cannot mutate it -/
theorem C18_no_interior_mutability :
    Generated.unsafeForbidden = 1 ∧ Generated.interiorMutabilityTokens = 0 ∧ Generated.searchTakesSharedRef = 1 := by decide
