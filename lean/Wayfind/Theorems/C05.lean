import Wayfind.Proofs.Reachable
import Wayfind.Proofs.Corollaries

/-! # C05 — routing depends only on the set of live templates
Search half: two routers reachable through the API whose trees hold the same routes (up to how literal text is split
across nodes) answer every search identically, for every constraint environment — whatever order, flags, dirty marks
or radix splits their histories left.
Status: **partial** — the printing half (`Display` equal) needs uniqueness of the canonical tree; "same live templates
⇒ same routes" is the registry invariant. Both are tied by the FUN oracle of the check. -/

theorem C05_search_history_independent (env : Env) (r1 r2 : Router) (h1 : Reachable r1) (h2 : Reachable r2)
    (hsame : ∀ P i, Mem (Node.routes r1.root) P i ↔ Mem (Node.routes r2.root) P i) (path : Bytes) :
    (Node.search env r1.root path []) = (Node.search env r2.root path []) :=
  search_same_routes env _ _ (reachable_good3 r1 h1) (reachable_good3 r2 h2) hsame path

theorem C05_search_history_independent_api (env : Env) (r1 r2 : Router) (h1 : Reachable r1) (h2 : Reachable r2)
    (hsame : ∀ P i, Mem (Node.routes r1.root) P i ↔ Mem (Node.routes r2.root) P i) (path : Bytes) :
    r1.search env path = r2.search env path := by
  unfold Router.search
  rw [C05_search_history_independent env r1 r2 h1 h2 hsame path]
