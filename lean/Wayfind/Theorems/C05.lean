import Wayfind.Proofs.Corollaries

/-! # C05 — routing depends only on the set of live templates
Search half: two reachable trees holding the same routes (up to how literal text is split across nodes) answer every
search identically, for every constraint environment — whatever order, flags, dirty marks or radix splits their
histories left.
Status: **partial** — tree layer, and the printing half (`Display` equal) needs uniqueness of the canonical tree. -/

theorem C05_search_history_independent (env : Env) (ops1 ops2 : List ROp)
    (hw1 : ∀ op ∈ ops1, op.wf) (hw2 : ∀ op ∈ ops2, op.wf)
    (hsame : ∀ P i, Mem (Node.routes (ops1.foldl applyROp Node.empty)) P i ↔ Mem (Node.routes (ops2.foldl applyROp Node.empty)) P i)
    (path : Bytes) :
    Node.search env (ops1.foldl applyROp Node.empty) path [] = Node.search env (ops2.foldl applyROp Node.empty) path [] :=
  search_same_routes env _ _ (good3_reachable ops1 hw1 _ good3_empty) (good3_reachable ops2 hw2 _ good3_empty) hsame path
