import Wayfind.Proofs.NodesCache
import Wayfind.Proofs.Reachable
import Wayfind.Proofs.Corollaries
import Wayfind.Proofs.SameLive
import Wayfind.Proofs.Unique5

/-! # C05 — routing depends only on the set of live templates
Search half: two routers reachable through the API whose trees hold the same routes (up to how literal text is split
across nodes) answer every search identically, for every constraint environment — whatever order, flags, dirty marks
or radix splits their histories left.
Status: **both halves proved, for every history.** Search: `C05_same_live_set_same_results` (same set of
(template, data) pairs ⇒ identical results for every path and every constraint environment). Printing:
`C05_same_live_set_same_tree` — every reachable tree is *canonical* (`reachable_canon`: well-shaped, every sibling
vector sorted, maximally compressed), two canonical trees storing the same keys have the same skeleton
(`Node.skel_unique`; this is where maximal compression pins every literal label down), and `Display` sees only the
skeleton. The FUN oracle (every drawing of the implementation must be a function of its live set) ties the real
crate to this on every run. -/

theorem C05_search_history_independent (env : Env) (r1 r2 : Router) (h1 : Reachable r1) (h2 : Reachable r2)
    (hsame : ∀ P i, Mem (Node.routes r1.root) P i ↔ Mem (Node.routes r2.root) P i) (path : Bytes) :
    (Node.search env r1.root path []) = (Node.search env r2.root path []) :=
  search_same_routes env _ _ (reachable_good3 r1 h1) (reachable_good3 r2 h2) hsame path

theorem C05_search_history_independent_api (env : Env) (r1 r2 : Router) (h1 : Reachable r1) (h2 : Reachable r2)
    (hsame : ∀ P i, Mem (Node.routes r1.root) P i ↔ Mem (Node.routes r2.root) P i) (path : Bytes) :
    r1.search env path = r2.search env path := by
  unfold Router.search
  rw [C05_search_history_independent env r1 r2 h1 h2 hsame path]

/-- **On live templates.** Two routers holding the same set of (template, data) pairs — whatever the order of the
insertions and whatever was inserted and deleted along the way — return identical results for every path. -/
theorem C05_same_live_set_same_results (env : Env) (r1 r2 : Router) (L1 L2 : List LiveT) (h1 : Live r1 L1) (h2 : Live r2 L2)
    (h12 : ∀ lt ∈ L1, ∃ lt' ∈ L2, lt'.template = lt.template ∧ lt'.data = lt.data)
    (h21 : ∀ lt ∈ L2, ∃ lt' ∈ L1, lt'.template = lt.template ∧ lt'.data = lt.data) (path : Bytes) :
    r1.search env path = r2.search env path :=
  same_live_same_search env h1 h2 h12 h21 path

/-- **Printing half.** Two routers holding the same set of templates — whatever the order of the insertions and whatever
was inserted and deleted along the way — print identical trees (the drawing does not show data values). -/
theorem C05_same_live_set_same_tree (r1 r2 : Router) (L1 L2 : List LiveT) (h1 : Live r1 L1) (h2 : Live r2 L2)
    (h12 : ∀ lt ∈ L1, ∃ lt' ∈ L2, lt'.template = lt.template)
    (h21 : ∀ lt ∈ L2, ∃ lt' ∈ L1, lt'.template = lt.template) :
    r1.display = r2.display :=
  same_live_same_display h1 h2 h12 h21

/-- the tree layer of the same fact: canonical trees that store the same keys print identically -/
theorem C05_canonical_tree_unique (n1 n2 : Node) (c1 : Canon n1) (c2 : Canon n2)
    (h : ∀ K, wfParts K = true → (Node.find n1 K).isSome = (Node.find n2 K).isSome) :
    Node.skel n1 = Node.skel n2 ∧ Node.display n1 = Node.display n2 :=
  ⟨Node.skel_unique n1 n2 c1 c2 h, display_eq_of_keyEq n1 n2 c1 c2 h⟩

/-- non-vacuity: two different insertion orders of `/ab`, `/ac` (as trees) are canonical and print the same -/
example :
    let i : Info := {template := [], data := 1, depth := 1, length := 3}
    let a := Node.optimize (Node.insert (Node.optimize (Node.insert Node.empty [.stat [47, 97, 98]] i)) [.stat [47, 97, 99]] i)
    let b := Node.optimize (Node.insert (Node.optimize (Node.insert Node.empty [.stat [47, 97, 99]] i)) [.stat [47, 97, 98]] i)
    Node.skel a = Node.skel b := by rfl

/-! ## the `sorted` cache of `Nodes` (src/nodes.rs), fifth session

The tree model sorts plain child lists; `Model/NodesCache.lean` models the vector-with-a-flag of the code method by method
(`new`, `push`, `remove`, `iter_mut`, `IndexMut`, `sort` with its early return). `lt` is any strict total order; sibling keys
are pairwise different. Which method touches the flag how is re-extracted from the source on every run and compared with
this model as a tripwire of the check (`nodes_cache_ops`). -/

/-- the cache is sound along every use: a set flag means a sorted vector — established by `sort`, kept by `remove`,
trivially true after `new` / `push` / `iter_mut` (they clear the flag) -/
theorem C05_sort_cache_sound {α : Type} (lt : α → α → Bool) (st : NodesC.StrictTotal lt) (c : NodesC α) (h : NodesC.CacheOK lt c) :
    (∀ x, NodesC.CacheOK lt (c.push x)) ∧ (∀ f, NodesC.CacheOK lt (c.iterMut f)) ∧ (∀ i, NodesC.CacheOK lt (c.remove i)) ∧
    (c.vec.Nodup → NodesC.CacheOK lt (c.sort lt)) :=
  ⟨fun x => NodesC.cacheOK_push lt c x, fun f => NodesC.cacheOK_iterMut lt c f, fun i => NodesC.cacheOK_remove st c i h,
   fun hnd => NodesC.cacheOK_sort st c hnd h⟩

/-- **the cache is unobservable**: under the invariant `sort` leaves the sorted vector whether or not it returns early -/
theorem C05_sort_cache_unobservable {α : Type} (lt : α → α → Bool) (c : NodesC α) (h : NodesC.CacheOK lt c) :
    (c.sort lt).vec = NodesC.sortList lt c.vec := NodesC.sort_vec lt c h

/-- as `optimize` uses a child vector (iterate mutably, then sort) the early return is never taken -/
theorem C05_optimize_sorts_whatever_the_flag {α : Type} (lt : α → α → Bool) (f : α → α) (c : NodesC α) :
    (c.optimizeVec lt f).vec = NodesC.sortList lt (c.vec.map f) ∧ (c.optimizeVec lt f).sorted = true :=
  NodesC.optimizeVec_vec lt f c

/-- non-vacuity: a strictly sorted vector with the flag set satisfies the invariant; so does any vector with the flag clear -/
example : NodesC.CacheOK (fun a b : Nat => decide (a < b)) ⟨[1, 4, 9], true⟩ := by
  intro _; simp [NodesC.Sorted]
