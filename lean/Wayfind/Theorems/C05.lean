import Wayfind.Proofs.Reachable
import Wayfind.Proofs.Corollaries
import Wayfind.Proofs.SameLive

/-! # C05 — routing depends only on the set of live templates
Search half: two routers reachable through the API whose trees hold the same routes (up to how literal text is split
across nodes) answer every search identically, for every constraint environment — whatever order, flags, dirty marks
or radix splits their histories left.
Status: the search half is proved on live templates (`C05_same_live_set_same_results`: same set of (template, data)
pairs ⇒ identical results for every path and every constraint environment) for every history, and on stored routes. **Partial**: the printing half
(`Display` equal) needs uniqueness of the canonical tree; it is tied by the FUN oracle (every drawing must be a
function of the live set) over rebuilds in sorted order, all insertion orders of small subsets with detours, and
repeated observations. -/

theorem C05_search_history_independent (env : Env) (r1 r2 : Router) (h1 : Reachable r1) (h2 : Reachable r2)
    (hsame : ∀ P i, Mem (Node.routes r1.root) P i ↔ Mem (Node.routes r2.root) P i) (path : Bytes) :
    (Node.search env r1.root path []) = (Node.search env r2.root path []) :=
  search_same_routes env _ _ (reachable_good3 r1 h1) (reachable_good3 r2 h2) hsame path

theorem C05_search_history_independent_api (env : Env) (r1 r2 : Router) (h1 : Reachable r1) (h2 : Reachable r2)
    (hsame : ∀ P i, Mem (Node.routes r1.root) P i ↔ Mem (Node.routes r2.root) P i) (path : Bytes) :
    r1.search env path = r2.search env path := by
  unfold Router.search
  rw [C05_search_history_independent env r1 r2 h1 h2 hsame path]

/-- **On live templates.** Two routers holding the same set of (template, data) pairs — whatever the order of the
insertions and whatever was inserted and deleted along the way — return identical results for every path. -/
theorem C05_same_live_set_same_results (env : Env) (r1 r2 : Router) (L1 L2 : List LiveT) (h1 : Live r1 L1) (h2 : Live r2 L2)
    (h12 : ∀ lt ∈ L1, ∃ lt' ∈ L2, lt'.template = lt.template ∧ lt'.data = lt.data)
    (h21 : ∀ lt ∈ L2, ∃ lt' ∈ L1, lt'.template = lt.template ∧ lt'.data = lt.data) (path : Bytes) :
    r1.search env path = r2.search env path :=
  same_live_same_search env h1 h2 h12 h21 path
