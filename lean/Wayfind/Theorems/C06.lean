import Wayfind.Proofs.Corollaries

/-! # C06 — templates do not interfere
If a reachable tree `t2` holds all routes of a reachable tree `t1` and every additional route does not fit `path`,
the result for `path` is the same on both: adding (read backwards: removing) templates that do not fit a path cannot
change how it is routed. And a path the added routes do fit is matched afterwards (C02).
Status: **partial** — tree layer. -/

theorem C06_non_interference (env : Env) (ops1 ops2 : List ROp)
    (hw1 : ∀ op ∈ ops1, op.wf) (hw2 : ∀ op ∈ ops2, op.wf) (path : Bytes)
    (hsub : ∀ P i, Mem (Node.routes (ops1.foldl applyROp Node.empty)) P i → Mem (Node.routes (ops2.foldl applyROp Node.empty)) P i)
    (hextra : ∀ P i, Mem (Node.routes (ops2.foldl applyROp Node.empty)) P i →
      Mem (Node.routes (ops1.foldl applyROp Node.empty)) P i ∨ ¬ FitsN env P path) :
    Node.search env (ops1.foldl applyROp Node.empty) path [] = Node.search env (ops2.foldl applyROp Node.empty) path [] :=
  search_irrelevant env _ _ (good3_reachable ops1 hw1 _ good3_empty) (good3_reachable ops2 hw2 _ good3_empty) path hsub hextra
