import Wayfind.Proofs.Reachable
import Wayfind.Proofs.Corollaries

/-! # C06 — templates do not interfere
If a reachable router `r2` holds all routes of a reachable router `r1` and every additional route does not fit `path`,
the result for `path` is the same on both: adding (read backwards: removing) templates that do not fit a path cannot
change how it is routed. A path the added routes do fit is matched afterwards (C02).
Status: **partial** — "insert adds exactly the template's expansions" is the registry invariant. -/

theorem C06_non_interference (env : Env) (r1 r2 : Router) (h1 : Reachable r1) (h2 : Reachable r2) (path : Bytes)
    (hsub : ∀ P i, Mem (Node.routes r1.root) P i → Mem (Node.routes r2.root) P i)
    (hextra : ∀ P i, Mem (Node.routes r2.root) P i → Mem (Node.routes r1.root) P i ∨ ¬ FitsN env P path) :
    r1.search env path = r2.search env path := by
  unfold Router.search
  rw [search_irrelevant env _ _ (reachable_good3 r1 h1) (reachable_good3 r2 h2) path hsub hextra]
