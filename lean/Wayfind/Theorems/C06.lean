import Wayfind.Proofs.Reachable
import Wayfind.Proofs.Corollaries
import Wayfind.Proofs.Registry6
import Wayfind.Proofs.LiveWalk2

/-! # C06 — templates do not interfere
If a reachable router `r2` holds all routes of a reachable router `r1` and every additional route does not fit `path`,
the result for `path` is the same on both: adding (read backwards: removing) templates that do not fit a path cannot
change how it is routed. A path the added routes do fit is matched afterwards (C02).
Status: both halves are proved on live templates for every history (`C06_insert_changes_only_fitting_paths`,
`C06_inserted_template_is_routed`, `C06_delete_changes_only_fitting_paths`), and on stored routes. -/

theorem C06_non_interference (env : Env) (r1 r2 : Router) (h1 : Reachable r1) (h2 : Reachable r2) (path : Bytes)
    (hsub : ∀ P i, Mem (Node.routes r1.root) P i → Mem (Node.routes r2.root) P i)
    (hextra : ∀ P i, Mem (Node.routes r2.root) P i → Mem (Node.routes r1.root) P i ∨ ¬ FitsN env P path) :
    r1.search env path = r2.search env path := by
  unfold Router.search
  rw [search_irrelevant env _ _ (reachable_good3 r1 h1) (reachable_good3 r2 h2) path hsub hextra]

/-- **insert is local**: a successful `insert t` changes the result only for paths some expansion of `t` fits … -/
theorem C06_insert_changes_only_fitting_paths (env : Env) (r r' : Router) (L : List LiveT) (h : Live r L) (t : Bytes) (d : Nat)
    (hi : r.insert t d = .ok r') (ts : List (Bytes × List Part)) (hp : parseTemplates t = .ok ts)
    (path : Bytes) (hnofit : ¬ ∃ e ∈ ts, ∃ vs, Fits env e.2 path vs) :
    r'.search env path = r.search env path :=
  insert_local env h hi ts hp path hnofit

/-- … and every such path is matched afterwards -/
theorem C06_inserted_template_is_routed (env : Env) (r r' : Router) (L : List LiveT) (h : Live r L) (t : Bytes) (d : Nat)
    (hi : r.insert t d = .ok r') (ts : List (Bytes × List Part)) (hp : parseTemplates t = .ok ts)
    (path : Bytes) (hfit : ∃ e ∈ ts, ∃ vs, Fits env e.2 path vs) : (r'.search env path).isSome = true :=
  insert_routes env h hi ts hp path hfit

/-- **Delete half, on live templates.** Deleting a live template changes the result only for paths that one of its
expansions fits: every other path keeps exactly its previous result. -/
theorem C06_delete_changes_only_fitting_paths (env : Env) (r : Router) (L : List LiveT) (h : Live r L) (lt : LiveT) (hlt : lt ∈ L)
    (path : Bytes) (hnofit : ∀ e ∈ lt.exps, ¬ ∃ vs, Fits env e.2 path vs) :
    (r.delete lt.template).2.search env path = r.search env path :=
  delete_changes_only_fitting_paths env h lt hlt path hnofit
