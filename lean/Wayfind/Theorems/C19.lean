import Wayfind.Proofs.RouterBasics
import Wayfind.Proofs.Messages

/-! # C19 — route-table errors carry the exact strings involved
Payload half, on the model of `Router::{insert, delete, constraint}`: a conflict carries the template passed to
insert; not-found and mismatch carry the template passed to delete; a duplicate-name error carries the name and the
offered type name; an unknown-constraint error names a constraint that a part of the parsed template really uses
and that the registry does not hold; a template error is the parser's error for exactly the text passed in (whose
payload is C14). (That the conflict list is exactly the sorted, duplicate-free list of colliding live templates is
C08; which live template a mismatch names is C09.)
Rendering half: `Model/Messages.lean` *interprets the format strings of the `impl Display` blocks of
`src/errors/{insert,delete,constraint}.rs`, which the translator extracts on every run* (so this part of the model is
regenerated from the source). `C19_rendered_*`: each rendered message contains every payload string verbatim — by a general
lemma (a named argument of a format string occurs in the rendered text, `field_rendered`; every element occurs in a joined
list, `conflict_in_list`) and generated obligations (`C19_formats_mention_payload`: each format string names each payload
field; `C19_conflict_list_untrimmed`: nothing is applied to the joined list of conflicts after `join`). The model's text is
compared byte for byte with the implementation's `to_string()` on every error of every run (class `render`).
Status: proved on the model; the tie of the rendering model is the translator plus the exact text comparison. -/

theorem C19_conflict_carries_input (r : Router) (t : Bytes) (d : Nat) (t' : Bytes) (cs : List Bytes)
    (h : r.insert t d = .error (.conflict t' cs)) : t' = t := by
  unfold Router.insert at h
  repeat' split at h
  all_goals first | (cases h; done) | (simp at h; exact h.1.symm) | (simp at h)

theorem C19_delete_errors_carry_input (r : Router) (t : Bytes) :
    (∀ t', (r.delete t).1 = .error (.notFound t') → t' = t) ∧
    (∀ t' ins, (r.delete t).1 = .error (.mismatch t' ins) → t' = t) := by
  unfold Router.delete
  constructor
  · intro t' h
    repeat' split at h
    all_goals first | (cases h; done) | (simp at h; exact h.symm) | (rw [Router.deleteOk_fst] at h; split at h <;> simp at h; exact h.symm)
  · intro t' ins h
    repeat' split at h
    all_goals first | (cases h; done) | (simp at h; exact h.1.symm) | (rw [Router.deleteOk_fst] at h; split at h <;> simp at h)

theorem C19_duplicate_name_payload (r : Router) (name ty n a b : Bytes)
    (h : r.constraint name ty = .error (.duplicateName n a b)) : n = name ∧ b = ty ∧ (name, a) ∈ r.registry := by
  unfold Router.constraint at h
  split at h
  · rename_i e hf
    injection h with h; injection h with h1 h2 h3
    refine ⟨h1.symm, h3.symm, ?_⟩
    have hm := List.mem_of_find?_eq_some hf
    have hp := List.find?_some hf
    have : e.1 = name := by simpa using hp
    rw [← this, ← h2]; exact hm
  · cases h

/-- an unknown-constraint error names a constraint that a part of some expansion of the template really uses and
that is not in the registry -/
theorem C19_unknown_constraint_payload (r : Router) (t : Bytes) (d : Nat) (c : Bytes)
    (h : r.insert t d = .error (.unknownConstraint c)) :
    ∃ ts, parseTemplates t = .ok ts ∧ (∃ e ∈ ts, ∃ p ∈ e.2, Part.consName p = some c) ∧
      r.registry.any (·.1 == c) = false := by
  unfold Router.insert at h
  cases hp : parseTemplates t with
  | error e => rw [hp] at h; cases h
  | ok ts =>
    rw [hp] at h
    simp only at h
    cases hf : firstUnknown (fun c => r.registry.any (·.1 == c)) ts with
    | none =>
      rw [hf] at h
      simp only at h
      split at h <;> cases h
    | some c' =>
      rw [hf] at h
      injection h with h; injection h with h; subst h
      refine ⟨ts, rfl, ?_, ?_⟩
      · unfold firstUnknown at hf
        have hm := List.mem_of_find?_eq_some hf
        obtain ⟨e, he, hc⟩ := List.mem_flatMap.1 hm
        obtain ⟨p, hp', hpc⟩ := List.mem_filterMap.1 hc
        exact ⟨e, he, p, List.mem_reverse.1 hp', hpc⟩
      · unfold firstUnknown at hf
        have := List.find?_some hf
        simpa using this

/-- a template error returned by insert or delete is the parser's error for the text passed in -/
theorem C19_template_error_is_parse_error (r : Router) (t : Bytes) (d : Nat) (e : TErr) :
    (r.insert t d = .error (.template e) ↔ parseTemplates t = .error e) ∧
    ((r.delete t).1 = .error (.template e) ↔ parseTemplates t = .error e) := by
  constructor
  · unfold Router.insert
    cases hp : parseTemplates t with
    | error e' => simp
    | ok ts =>
      simp only
      constructor
      · intro h
        repeat' split at h
        all_goals cases h
      · intro h; cases h
  · unfold Router.delete
    cases hp : parseTemplates t with
    | error e' => simp
    | ok ts =>
      simp only
      constructor
      · intro h
        repeat' split at h
        all_goals first | (cases h; done) | (rw [Router.deleteOk_fst] at h; split at h <;> cases h)
      · intro h; cases h

/-- generated obligation: every format string mentions every payload field of its variant -/
theorem C19_formats_mention_payload :
    (Seg.field fTemplate ∈ parseFmt (fmtOf bConflict) ∧ Seg.field fConflicts ∈ parseFmt (fmtOf bConflict) ∧
     Seg.field fConflict ∈ parseFmt Generated.conflictItemFormat) ∧
    Seg.field fConstraint ∈ parseFmt (fmtOf bUnknownConstraint) ∧
    Seg.field fTemplate ∈ parseFmt (fmtOf bNotFound) ∧
    (Seg.field fTemplate ∈ parseFmt (fmtOf bMismatch) ∧ Seg.field fInserted ∈ parseFmt (fmtOf bMismatch)) ∧
    (Seg.field fName ∈ parseFmt (fmtOf bDuplicateName) ∧ Seg.field fExisting ∈ parseFmt (fmtOf bDuplicateName) ∧
     Seg.field fNew ∈ parseFmt (fmtOf bDuplicateName)) := by decide

/-- generated obligation: the joined list of conflicts is used as it is (nothing trims or rewrites it) -/
theorem C19_conflict_list_untrimmed : Generated.conflictChain = [[106, 111, 105, 110]] := by decide

/-- the rendered `Conflict` message contains the template passed to insert and every conflicting template -/
theorem C19_rendered_conflict (t : Bytes) (cs : List Bytes) :
    t <:+: renderConflict t cs ∧ ∀ c ∈ cs, c <:+: renderConflict t cs := by
  obtain ⟨⟨h1, h2, h3⟩, _⟩ := C19_formats_mention_payload
  constructor
  · have := field_rendered (fmtOf bConflict) (fun n => if n = fTemplate then t else if n = fConflicts then renderConflictList cs else []) fTemplate h1
    simpa [renderConflict] using this
  · intro c hc
    have := field_rendered (fmtOf bConflict) (fun n => if n = fTemplate then t else if n = fConflicts then renderConflictList cs else []) fConflicts h2
    have e : (if fConflicts = fTemplate then t else if fConflicts = fConflicts then renderConflictList cs else []) = renderConflictList cs := by
      have : fConflicts ≠ fTemplate := by decide
      simp [this]
    simp only [e] at this
    exact infix_trans' (conflict_in_list cs c hc h3) this

theorem C19_rendered_unknown_constraint (c : Bytes) : c <:+: renderUnknownConstraint c := by
  have := field_rendered (fmtOf bUnknownConstraint) (fun n => if n = fConstraint then c else []) fConstraint C19_formats_mention_payload.2.1
  simpa [renderUnknownConstraint] using this

theorem C19_rendered_not_found (t : Bytes) : t <:+: renderNotFound t := by
  have := field_rendered (fmtOf bNotFound) (fun n => if n = fTemplate then t else []) fTemplate C19_formats_mention_payload.2.2.1
  simpa [renderNotFound] using this

theorem C19_rendered_mismatch (t i : Bytes) : t <:+: renderMismatch t i ∧ i <:+: renderMismatch t i := by
  obtain ⟨h1, h2⟩ := C19_formats_mention_payload.2.2.2.1
  constructor
  · have := field_rendered (fmtOf bMismatch) (fun n => if n = fTemplate then t else if n = fInserted then i else []) fTemplate h1
    simpa [renderMismatch] using this
  · have := field_rendered (fmtOf bMismatch) (fun n => if n = fTemplate then t else if n = fInserted then i else []) fInserted h2
    have e : fInserted ≠ fTemplate := by decide
    simpa [renderMismatch, e] using this

theorem C19_rendered_duplicate_name (name ex new : Bytes) :
    name <:+: renderDuplicateName name ex new ∧ ex <:+: renderDuplicateName name ex new ∧ new <:+: renderDuplicateName name ex new := by
  obtain ⟨h1, h2, h3⟩ := C19_formats_mention_payload.2.2.2.2
  refine ⟨?_, ?_, ?_⟩
  · have := field_rendered (fmtOf bDuplicateName) (fun n => if n = fName then name else if n = fExisting then ex else if n = fNew then new else []) fName h1
    simpa [renderDuplicateName] using this
  · have := field_rendered (fmtOf bDuplicateName) (fun n => if n = fName then name else if n = fExisting then ex else if n = fNew then new else []) fExisting h2
    have e : fExisting ≠ fName := by decide
    simpa [renderDuplicateName, e] using this
  · have := field_rendered (fmtOf bDuplicateName) (fun n => if n = fName then name else if n = fExisting then ex else if n = fNew then new else []) fNew h3
    have e1 : fNew ≠ fName := by decide
    have e2 : fNew ≠ fExisting := by decide
    simpa [renderDuplicateName, e1, e2] using this
