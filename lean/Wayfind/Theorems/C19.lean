import Wayfind.Proofs.RouterBasics

/-! # C19 — route-table errors carry the exact strings involved
Payload half, on the model of `Router::{insert, delete, constraint}`: a conflict carries the template passed to
insert; not-found and mismatch carry the template passed to delete; a duplicate-name error carries the name and the
offered type name; an unknown-constraint error names a constraint that a part of the parsed template really uses
and that the registry does not hold; a template error is the parser's error for exactly the text passed in (whose
payload is C14). (That the conflict list is exactly the sorted, duplicate-free list of colliding live templates is
C08; which live template a mismatch names is C09.)
Status: **partial** — the rendered wording is not modelled; that every payload string occurs verbatim in the
rendered message is checked on the implementation by the harness on every error of every run. -/

theorem C19_conflict_carries_input (r : Router) (t : Bytes) (d : Nat) (t' : Bytes) (cs : List Bytes)
    (h : r.insert t d = .error (.conflict t' cs)) : t' = t := by
  unfold Router.insert at h
  repeat' split at h
  all_goals first | (cases h; done) | (simp at h; exact h.1.symm) | (simp at h)

theorem C19_delete_errors_carry_input (r : Router) (t : Bytes) :
    (∀ t', (r.delete t).1 = .error (.notFound t') → t' = t) ∧
    (∀ t' ins, (r.delete t).1 = .error (.mismatch t' ins) → t' = t) := by
  unfold Router.delete
  constructor
  · intro t' h
    repeat' split at h
    all_goals first | (cases h; done) | (simp at h; exact h.symm) | (rw [Router.deleteOk_fst] at h; split at h <;> simp at h; exact h.symm)
  · intro t' ins h
    repeat' split at h
    all_goals first | (cases h; done) | (simp at h; exact h.1.symm) | (rw [Router.deleteOk_fst] at h; split at h <;> simp at h)

theorem C19_duplicate_name_payload (r : Router) (name ty n a b : Bytes)
    (h : r.constraint name ty = .error (.duplicateName n a b)) : n = name ∧ b = ty ∧ (name, a) ∈ r.registry := by
  unfold Router.constraint at h
  split at h
  · rename_i e hf
    injection h with h; injection h with h1 h2 h3
    refine ⟨h1.symm, h3.symm, ?_⟩
    have hm := List.mem_of_find?_eq_some hf
    have hp := List.find?_some hf
    have : e.1 = name := by simpa using hp
    rw [← this, ← h2]; exact hm
  · cases h

/-- an unknown-constraint error names a constraint that a part of some expansion of the template really uses and
that is not in the registry -/
theorem C19_unknown_constraint_payload (r : Router) (t : Bytes) (d : Nat) (c : Bytes)
    (h : r.insert t d = .error (.unknownConstraint c)) :
    ∃ ts, parseTemplates t = .ok ts ∧ (∃ e ∈ ts, ∃ p ∈ e.2, Part.consName p = some c) ∧
      r.registry.any (·.1 == c) = false := by
  unfold Router.insert at h
  cases hp : parseTemplates t with
  | error e => rw [hp] at h; cases h
  | ok ts =>
    rw [hp] at h
    simp only at h
    cases hf : firstUnknown (fun c => r.registry.any (·.1 == c)) ts with
    | none =>
      rw [hf] at h
      simp only at h
      split at h <;> cases h
    | some c' =>
      rw [hf] at h
      injection h with h; injection h with h; subst h
      refine ⟨ts, rfl, ?_, ?_⟩
      · unfold firstUnknown at hf
        have hm := List.mem_of_find?_eq_some hf
        obtain ⟨e, he, hc⟩ := List.mem_flatMap.1 hm
        obtain ⟨p, hp', hpc⟩ := List.mem_filterMap.1 hc
        exact ⟨e, he, p, List.mem_reverse.1 hp', hpc⟩
      · unfold firstUnknown at hf
        have := List.find?_some hf
        simpa using this

/-- a template error returned by insert or delete is the parser's error for the text passed in -/
theorem C19_template_error_is_parse_error (r : Router) (t : Bytes) (d : Nat) (e : TErr) :
    (r.insert t d = .error (.template e) ↔ parseTemplates t = .error e) ∧
    ((r.delete t).1 = .error (.template e) ↔ parseTemplates t = .error e) := by
  constructor
  · unfold Router.insert
    cases hp : parseTemplates t with
    | error e' => simp
    | ok ts =>
      simp only
      constructor
      · intro h
        repeat' split at h
        all_goals cases h
      · intro h; cases h
  · unfold Router.delete
    cases hp : parseTemplates t with
    | error e' => simp
    | ok ts =>
      simp only
      constructor
      · intro h
        repeat' split at h
        all_goals first | (cases h; done) | (rw [Router.deleteOk_fst] at h; split at h <;> cases h)
      · intro h; cases h
