import Wayfind.Proofs.Reach

/-! # C03 — the documented priority picks the winner
`refWalk` (Spec/RefWalk.lean) is the documented walk written over a plain list of routes: literal text first, then
constrained dynamic, dynamic, constrained wildcard, wildcard, constrained catch-all, catch-all; alternatives of one
kind in alphabetical order of name then constraint; among the values of one parameter the deeper, then longer
template, then the longer value. The theorem: on every reachable tree — whatever flags, dirty marks and radix
splits its history left — the search *is* that walk over the tree's routes.
Status: **partial** — tree layer; see C01. -/

theorem C03_search_is_documented_walk (env : Env) (ops : List ROp) (hw : ∀ op ∈ ops, op.wf) (path : Bytes) :
    Node.search env (ops.foldl applyROp Node.empty) path [] =
      refWalk env path.length (Node.routes (ops.foldl applyROp Node.empty)) path [] :=
  (reachable_search env ops hw path).1

/-- literal text is tried before any parameter: if the literal branch of the walk succeeds, that is the answer -/
theorem C03_literal_first (env : Env) (fuel : Nat) (rs : List Route) (b : Byte) (tl : Bytes) (ps : Params) (x : Info × Params)
    (h : refWalk env fuel (rs.filterMap (stripByte b)) tl ps = some x) :
    refWalk env (fuel + 1) rs (b :: tl) ps = some x := by
  simp [refWalk, h, orElse']

/-- the best-match rule of one capture loop: a later candidate replaces the current best exactly when its template
is deeper, or equally deep and at least as long -/
theorem C03_best_rule (r : Info) (b : Info) (ps : Params) :
    better r (some (b, ps)) = (decide (r.depth > b.depth) || (r.depth == b.depth && decide (r.length ≥ b.length))) := rfl
