import Wayfind.Proofs.Reachable
import Wayfind.Proofs.LiveWalk
import Wayfind.Generated.Facts

/-! # C03 — the documented priority picks the winner
`refWalk` (Spec/RefWalk.lean) is the documented walk written over a plain list of routes: literal text first, then
constrained dynamic, dynamic, constrained wildcard, wildcard, constrained catch-all, catch-all; alternatives of one
kind in alphabetical order of name then constraint; among the values of one parameter the deeper, then longer
template, then the longer value. The theorem: on every router reachable through the API — whatever flags, dirty
marks and radix splits its history left — `search` *is* that walk over the tree's routes, and reports the winner's
template, expansion, data and parameter list.
Status: proved for every history, on stored routes (`C03_search_is_documented_walk`) and **on live templates**
(`C03_walk_over_live_templates`: the route list is written down from the live templates alone — one route per expansion,
with the template text, the data, and the text, depth and length of the expansion that owns the key). -/

theorem C03_search_is_documented_walk (env : Env) (r : Router) (h : Reachable r) (path : Bytes) :
    r.search env path =
      (refWalk env path.length (Node.routes r.root) path []).map toMatch :=
  Router.search_eq_walk env r h path

/-- literal text is tried before any parameter: if the literal branch of the walk succeeds, that is the answer -/
theorem C03_literal_first (env : Env) (fuel : Nat) (rs : List Route) (b : Byte) (tl : Bytes) (ps : Params) (x : Info × Params)
    (h : refWalk env fuel (rs.filterMap (stripByte b)) tl ps = some x) :
    refWalk env (fuel + 1) rs (b :: tl) ps = some x := by
  simp [refWalk, h, orElse']

/-- the best-match rule of one capture loop: a later candidate replaces the current best exactly when its template
is deeper, or equally deep and at least as long -/
theorem C03_best_rule (r : Info) (b : Info) (ps : Params) :
    better r (some (b, ps)) = (decide (r.depth > b.depth) || (r.depth == b.depth && decide (r.length ≥ b.length))) := rfl

/-- **On live templates.** The result of every search on a router reached through the API is the documented walk over
`specRoutes L`, the route list of its live templates: literal text first, then constrained dynamic, dynamic, constrained
wildcard, wildcard, constrained catch-all, catch-all; alphabetical among siblings; among the values of one parameter the
continuation with more '/' wins, then the longer template, then the longer value (`refWalk`, Spec/RefWalk.lean). -/
theorem C03_walk_over_live_templates (env : Env) (r : Router) (L : List LiveT) (h : Live r L) (path : Bytes) :
    r.search env path = (refWalk env path.length (specRoutes L) path []).map toMatch :=
  search_is_walk_over_live env h path
