import Wayfind.Proofs.Reachable
import Wayfind.Generated.Facts

/-! # C15 — the printed tree is the canonical compressed radix tree of the live routes
On every router reachable through the API the tree satisfies `Shp` and `Srt` (Proofs/Inv.lean, Proofs/OptOk.lean):
literal labels are non-empty and literal siblings begin with different bytes; parameter siblings of one kind are
pairwise different and strictly sorted by name, then constraint; parameter nodes have only literal children; mid-route
wildcard nodes carry no data; catch-all nodes are marked leaves; every child holds at least one route (so every leaf
is marked). `Display` prints the seven child vectors in kind order (generated obligation) and, inside a vector, in
stored order.
Status: **partial** — not yet proved: literal siblings sorted, no unmarked literal node with a single literal child
(maximal compression), and the identification of the marked label paths with the live expansions (registry
invariant). All clauses of the property are checked on the implementation's own drawings by the `C15` oracle
(Spec/Drawing.lean parses the printed tree back), on every `display` of every run. -/

theorem C15_tree_shape (r : Router) (h : Reachable r) : Node.Shp r.root ∧ Node.Srt r.root :=
  ⟨(reachable_good3 r h).1, (reachable_good3 r h).2.1⟩

/-- generated obligation: `Display` prints the child vectors in the documented kind order -/
theorem C15_display_kind_order : Generated.displayKindOrder = [0, 1, 2, 3, 4, 5, 6] := by decide
