import Wayfind.Proofs.Unique5
import Wayfind.Proofs.RoutesNodup
import Wayfind.Generated.Facts
import Wayfind.Proofs.DrawText4

/-! # C15 — the printed tree is the canonical compressed radix tree of the live routes
On every router reachable through the API the tree is **canonical** (`C15_tree_canonical`; the predicates are
hereditary, i.e. they hold at every node of the tree):
* `Node.Shp` — literal labels are non-empty and literal siblings begin with different bytes; parameter siblings of one
  kind are pairwise different; parameter nodes have only literal children; mid-route wildcard nodes carry no data;
  catch-all nodes are marked leaves; every child holds at least one route, so **every leaf is marked**
  (`C15_leaf_is_marked`);
* `Node.Srt` — parameter siblings are strictly sorted by name, then constraint; `Node.SrtS` — **literal siblings are
  sorted** (by their first bytes);
* `Node.Cmp` — **maximal compression**: no literal child is an unmarked node whose only child is one literal node
  (`C15_no_compressible_literal_child` spells the predicate out at the root's literal children).
`Display` prints the seven child vectors in kind order (the order in which the source mentions them is a tripwire of the
check; the printed order is compared on every drawing) and, inside a vector, in stored order; it
depends on the tree only through its skeleton — labels, order, marks (`C15_display_sees_skeleton`).
**The drawing lists exactly the live routes** (`C15_marked_paths_are_live_routes`): the label paths from the root to the
marked nodes, literal labels concatenated, are exactly the part lists of the expansions of the live templates.
And the drawing is *the* canonical tree of that set: any two canonical trees with the same keys have the same skeleton and
print identically (`C15_canonical_is_unique`).
Each marked path occurs **once** (`C15_each_marked_path_once`: the normalised keys of `Node.routes` are pairwise different).
Status: proved for every history. Not proved: the text-level reading of the drawing (glyphs, padding) — checked on the
implementation's own drawings by the `C15` oracle, which parses the printed tree back (Spec/Drawing.lean). -/

theorem C15_tree_canonical (r : Router) (h : Reachable r) :
    Node.Shp r.root ∧ Node.Srt r.root ∧ Node.SrtS r.root ∧ Node.Cmp r.root :=
  reachable_canon r h

theorem C15_tree_shape (r : Router) (h : Reachable r) : Node.Shp r.root ∧ Node.Srt r.root :=
  ⟨(reachable_good3 r h).1, (reachable_good3 r h).2.1⟩

/-- a node that holds a route and has no children is marked -/
theorem C15_leaf_is_marked (x : Option Info) (ds ws dirty : Bool)
    (h : Node.routes (.mk x .nil .nil .nil .nil .nil .nil .nil ds ws dirty) ≠ []) : x.isSome = true := by
  cases x with
  | none => simp [Node.routes, Kids.routes] at h
  | some _ => rfl

/-- the compression clause spelled out: a literal child of a canonical node is never an unmarked node with exactly one
literal child and nothing else -/
theorem C15_no_compressible_literal_child (x : Option Info) (s dc d wc w ec e : Kids) (ds ws dirty : Bool)
    (h : Node.Cmp (.mk x s dc d wc w ec e ds ws dirty)) (A : Kids) (l : Label) (B : Kids)
    (lg : Label) (g : Node) (ds' ws' dirty' : Bool)
    (hs : s = Kids.app A (.cons l (.mk none (.cons lg g .nil) .nil .nil .nil .nil .nil .nil ds' ws' dirty') B)) : False := by
  simp only [Node.Cmp] at h
  have := h.1
  rw [hs, Kids.All_app, All_cons_iff] at this
  simp [Node.compress?, Kids.isNil, Kids.single] at this

/-- literal siblings: first bytes strictly increasing (hence pairwise different) at the root, and hereditarily below -/
theorem C15_literal_siblings_sorted (r : Router) (h : Reachable r) : SH r.root.statics := by
  have := (reachable_canon r h).2.2.1
  cases hr : r.root with
  | mk x s dc d wc w ec e ds ws dirty => rw [hr] at this; simp only [Node.SrtS] at this; exact this.1

theorem C15_display_sees_skeleton (n : Node) : Node.display (Node.skel n) = Node.display n := display_skel n

/-- **The marked label paths are exactly the live expansions.** `Node.routes` lists, for every marked node, the labels
from the root down to it; `norm` concatenates adjacent literal labels. -/
theorem C15_marked_paths_are_live_routes (r : Router) (L : List LiveT) (h : Live r L) :
    (∀ rt ∈ Node.routes r.root, ∃ lt ∈ L, ∃ e ∈ lt.exps, e.2 = norm rt.parts) ∧
    (∀ lt ∈ L, ∀ e ∈ lt.exps, ∃ rt ∈ Node.routes r.root, norm rt.parts = e.2) := by
  have hreg := h.rinv.reg
  constructor
  · intro rt hrt
    obtain ⟨hwf, hf⟩ := route_find hreg.shp rt hrt
    obtain ⟨lt, hlt, e, he, hk, _⟩ := hreg.sound _ _ hwf hf
    exact ⟨lt, hlt, e, he, hk⟩
  · intro lt hlt e he
    obtain ⟨i, hf, _⟩ := hreg.complete lt hlt e he
    have hwf : wfParts e.2 = true := parse_wf (hreg.parsed lt hlt) e he
    obtain ⟨rt, hrt, hn, _⟩ := (Node.find_iff r.root e.2 i hreg.shp hwf).1 hf
    exact ⟨rt, hrt, hn⟩

/-- every marked label path occurs once: the list of marked paths has no repetition -/
theorem C15_each_marked_path_once (r : Router) (h : Reachable r) :
    ((Node.routes r.root).map (fun rt => norm rt.parts)).Nodup :=
  routes_keys_nodup r.root (reachable_good3 r h).1

/-- **Canonical means unique**: two canonical trees storing the same keys have the same skeleton and the same drawing. -/
theorem C15_canonical_is_unique (n1 n2 : Node) (c1 : Canon n1) (c2 : Canon n2)
    (h : ∀ K, wfParts K = true → (Node.find n1 K).isSome = (Node.find n2 K).isSome) :
    Node.skel n1 = Node.skel n2 ∧ Node.display n1 = Node.display n2 :=
  ⟨Node.skel_unique n1 n2 c1 c2 h, display_eq_of_keyEq n1 n2 c1 c2 h⟩

/-! ## the printed text (fifth session)

The clauses above are about the tree; these two are about the *text* `Display` prints for it. `parseLineC` is how a reader
takes a printed line apart (indentation → depth, label, `[*]`); `markedTextsC` how the marked paths are read off the lines
(labels of the nearest preceding lines of each smaller depth, then the line's own). Hypothesis `Node.drawable`: every label
is non-empty, contains no `]`, and a top-level label does not start with an indentation or branch character — otherwise the
text is ambiguous (a literal label may contain any byte). Labels are compared as printed (`state.key()`, i.e.
`from_utf8_lossy` of the bytes); the byte-exact labels are the subject of the clauses above. Non-vacuity: `decide` cannot
evaluate `String.fromUTF8?`, so the premise is evaluated by the driver on every model tree of every run and counted
(`c15.drawable-model-tree`), and the same reader is the oracle applied to the implementation's output. -/

/-- **Every printed line reads back as its node**: depth, label and mark of the nodes, in order. -/
theorem C15_printed_lines_read_back (root : Node) (h : Node.drawable root = true) :
    (Node.lines "" "" true true root).map (fun l => parseLineC l.toList) = (Node.dents 0 [] root).map some :=
  root_lines_parse root h

/-- **The marked paths read off the printed text are the routes of the tree**, each once and in order: concatenating the
labels from the top down to each line marked `[*]` gives the rendered part list of every stored route (with
`C15_marked_paths_are_live_routes`: of every live expansion). -/
theorem C15_printed_marked_paths_are_routes (root : Node) (h : Node.drawable root = true) :
    ∃ ds, (Node.lines "" "" true true root).map (fun l => parseLineC l.toList) = ds.map some ∧
      markedTextsC ds = ((Node.routes root).filter (fun rt => !rt.parts.isEmpty)).map (fun rt => partsText rt.parts) :=
  ⟨Node.dents 0 [] root, root_lines_parse root h, marked_texts_of_dents root h⟩

/-- **The printed text determines the tree of printed labels**: two trees whose labels can be read back and which print the
same lines have the same nodes — label as printed, mark — with the same children in the same order (`Node.kidTrees`: the
seven child vectors one after the other, as the drawing shows them). So the drawing loses nothing but what `state.key()`
loses (the kind of a child is visible in its label, `{…}` / `{*…}` / `:constraint`; a catch-all is a `{*…}` leaf). -/
theorem C15_printed_text_determines_tree (n1 n2 : Node) (h1 : Node.drawable n1 = true) (h2 : Node.drawable n2 = true)
    (h : Node.lines "" "" true true n1 = Node.lines "" "" true true n2) : Node.kidTrees n1 = Node.kidTrees n2 :=
  lines_determine_tree n1 n2 h1 h2 h

/-- **From the lines to the text.** `Display` joins the printed lines with newlines and trims white space off the end. On
every reachable router (labels readable, no label containing a newline) the last printed line is that of a marked node — every
leaf holds a route — so the text ends in `]`, **the final `trim_end` removes nothing** (a label ending in blanks is never cut),
and splitting the text at its newlines gives back exactly the printed lines. With the three theorems above the *text* — not
only the list of lines — reads back as the nodes, routes and tree of printed labels. (`joinNL`, `splitNL`, `trimEndC` are
`join("\n")`, `split('\n')` and `trim_end` on character lists.) -/
theorem C15_text_determines_lines (r : Router) (h : Reachable r) (hdr : Node.drawable r.root = true)
    (hnl : ∀ l ∈ Node.lines "" "" true true r.root, '\n' ∉ l.toList) :
    let ls := (Node.lines "" "" true true r.root).map String.toList
    trimEndC (joinNL ls) = joinNL ls ∧ (ls ≠ [] → splitNL (joinNL ls) = ls) :=
  display_text_lines r.root (reachable_good3 r h).1 hdr hnl

/-- the last printed node of a reachable router is marked -/
theorem C15_last_printed_node_is_marked (r : Router) (h : Reachable r) (hdr : Node.drawable r.root = true) :
    ∀ e, (Node.dents 0 [] r.root).getLast? = some e → e.2.2 = true :=
  root_dents_last_marked r.root (reachable_good3 r h).1 hdr

/-- non-vacuity of the text lemmas: three lines, the last one marked and ending in a blank label -/
example : splitNL (joinNL ["/a".toList, "├─ b".toList, "╰─ c  [*]".toList]) = ["/a".toList, "├─ b".toList, "╰─ c  [*]".toList] ∧
    trimEndC (joinNL ["/a".toList, "╰─ c  [*]".toList]) = joinNL ["/a".toList, "╰─ c  [*]".toList] ∧
    trimEndC "/a ".toList = "/a".toList := by decide
