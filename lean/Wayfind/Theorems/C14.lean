import Wayfind.Model.Errors
import Wayfind.Spec.Fault
import Wayfind.Proofs.ParseErrors
import Wayfind.Proofs.ParenFault4

/-! # C14 — template errors point at the real fault
Rendering half (model of `impl Display for TemplateError`, compared byte for byte with the implementation on every
error of every run): every positional variant renders the line `    Template: <template>` followed by a caret line of
14 spaces, `start` spaces and `length` carets (`C14_caret_line`); for a duplicated name the caret line has one run per
occurrence (`C14_duplicate_caret_runs`, for ranges inside the template).
Fault half, proved (`C14_error_is_about_input_or_expansion`): an `Empty` error only for the empty input; a parenthesis
error (`()` / unmatched) carries the input itself; every other error carries one of the grammar's expansions of the
input, and all its positions and lengths lie inside that text (for a duplicated name: two disjoint ranges in order).
Fault half, second part, proved (`C14_fault_is_present`): for **all thirteen variants** the indicated bytes *are*
the construct — `faultPresent` of Spec/Fault.lean holds for every error `parse_templates` returns: `Empty` only for
the empty input; `()` at an unescaped `(` `)` pair of the input; an unbalanced parenthesis at a position the usual
stack matching (escapes skipped) leaves unmatched; and for the ten variants produced by `parse_template` (missing
slash, `{}`, unbalanced brace, empty / invalid parameter name, empty wildcard, empty / invalid constraint, touching
parameters, duplicated name) the indicated range of the carried expansion is the brace-delimited parameter with that
defect (for a duplicate: both ranges are parameters of the expansion, in order, disjoint, both with the reported name).
What is modelled rather than proved: the byte-level rendering (`TErr.render`) is a hand-written model of
`impl Display`, compared byte for byte with the implementation on every error of every run. -/

theorem C14_caret_line (title t trailer : Bytes) (start len : Nat) :
    renderWith title t (spaces start ++ carets len) trailer =
      title ++ strB "\n\n    Template: " ++ t ++ [10] ++ spaces (14 + start) ++ carets len ++ trailer := by
  simp only [renderWith, spaces, List.append_assoc, ← List.replicate_append_replicate]

/-- the positional variants are rendered through `renderWith` with their own start and length -/
theorem C14_positional_variants (t n : Bytes) (s l p : Nat) :
    (∃ title trailer, (TErr.emptyParameter t s l).render = renderWith title t (spaces s ++ carets l) trailer) ∧
    (∃ title trailer, (TErr.emptyWildcard t s l).render = renderWith title t (spaces s ++ carets l) trailer) ∧
    (∃ title trailer, (TErr.emptyConstraint t s l).render = renderWith title t (spaces s ++ carets l) trailer) ∧
    (∃ title trailer, (TErr.invalidParameter t n s l).render = renderWith title t (spaces s ++ carets l) trailer) ∧
    (∃ title trailer, (TErr.invalidConstraint t n s l).render = renderWith title t (spaces s ++ carets l) trailer) ∧
    (∃ title trailer, (TErr.touchingParameters t s l).render = renderWith title t (spaces s ++ carets l) trailer) ∧
    (∃ title trailer, (TErr.emptyBraces t p).render = renderWith title t (spaces p ++ carets 2) trailer) ∧
    (∃ title trailer, (TErr.emptyParentheses t p).render = renderWith title t (spaces p ++ carets 2) trailer) ∧
    (∃ title trailer, (TErr.unbalancedBrace t p).render = renderWith title t (spaces p ++ carets 1) trailer) ∧
    (∃ title trailer, (TErr.unbalancedParenthesis t p).render = renderWith title t (spaces p ++ carets 1) trailer) :=
  ⟨⟨_, _, rfl⟩, ⟨_, _, rfl⟩, ⟨_, _, rfl⟩, ⟨_, _, rfl⟩, ⟨_, _, rfl⟩, ⟨_, _, rfl⟩, ⟨_, _, rfl⟩, ⟨_, _, rfl⟩, ⟨_, _, rfl⟩, ⟨_, _, rfl⟩⟩

/-- one run of carets written into a line of spaces -/
theorem C14_overlay_run (n start len : Nat) (h : start + len ≤ n) :
    overlay (spaces n) start len = spaces start ++ carets len ++ spaces (n - start - len) := by
  simp only [overlay, spaces, List.take_replicate, List.drop_replicate]
  rw [Nat.min_eq_left (by omega), Nat.sub_add_eq]

/-- two disjoint ranges inside the template give two caret runs separated by spaces -/
theorem C14_duplicate_caret_runs (n f fl s sl : Nat) (h1 : f + fl ≤ s) (h2 : s + sl ≤ n) :
    overlay (overlay (spaces n) f fl) s sl =
      spaces f ++ carets fl ++ spaces (s - f - fl) ++ carets sl ++ spaces (n - s - sl) := by
  rw [C14_overlay_run n f fl (by omega)]
  have hsp : spaces (n - f - fl) = spaces (s - f - fl) ++ spaces (sl + (n - s - sl)) := by
    simp only [spaces, List.replicate_append_replicate]; congr 1; omega
  rw [hsp]
  have hlen : (spaces f ++ carets fl ++ spaces (s - f - fl)).length = s := by
    simp [spaces, carets]; omega
  unfold overlay
  rw [← List.append_assoc (spaces f ++ carets fl)]
  rw [List.take_left' hlen]
  have hd : (spaces f ++ carets fl ++ spaces (s - f - fl) ++ spaces (sl + (n - s - sl))).drop (s + sl) = spaces (n - s - sl) := by
    rw [List.drop_append, hlen]
    have : (spaces f ++ carets fl ++ spaces (s - f - fl)).drop (s + sl) = [] := by
      apply List.drop_eq_nil_of_le; rw [hlen]; omega
    rw [this]
    simp only [spaces, List.drop_replicate, List.nil_append]
    congr 1; omega
  rw [hd]

/-- the template text of an error is the input (parenthesis faults) or one of its expansions, and the reported
ranges lie inside it -/
theorem C14_error_is_about_input_or_expansion (input : Bytes) (e : TErr) (h : parseTemplates input = .error e) :
    (e = .empty ∧ input = []) ∨ e.isParen input ∨
    ∃ es raw, topExpansions input = some es ∧ raw ∈ es ∧ e.tpl = some raw ∧ e.inside raw :=
  parseTemplates_error_cases input e h

/-- the fault an error names is present in the text it carries (all variants) -/
theorem C14_fault_is_present (input : Bytes) (e : TErr) (h : parseTemplates input = .error e) :
    faultPresent input e = true :=
  parseTemplates_fault input e h

/-- non-vacuity: a duplicated name is reported with both of its occurrences -/
example : parseTemplates [47, 123, 97, 125, 47, 123, 97, 125] = .error (.duplicateParameter [47, 123, 97, 125, 47, 123, 97, 125] [97] 1 3 5 3) ∧
    faultPresent [47, 123, 97, 125, 47, 123, 97, 125] (.duplicateParameter [47, 123, 97, 125, 47, 123, 97, 125] [97] 1 3 5 3) = true := by
  refine ⟨?_, by decide⟩
  simp [parseTemplates, expandRange, expandScan, mapExcept, parseTemplate, parseLoop, parseLoop.parseLoopDup,
    parseParam, braceEnd, partName, parseStatic, invalidChars, List.idxOf?, List.findIdx?, List.findIdx?.go]
