import Wayfind.Proofs.Greedy

/-! # C12 — captures are greedy, leftmost parameter first
`greedy` (Spec/Greedy.lean) is the leftmost-longest assignment written directly. With a single route the documented
walk returns exactly it; combined with C03 (search = walk) this is the property for a router holding one group-free
template, whether the parameter fills a segment or shares it with literal text.
Status: **partial** — list level + tree level separately; the one-template router statement is the composition. -/

theorem C12_single_route_walk_is_greedy (env : Env) (parts : List Part) (info : Info) (path : Bytes) (hs : statsNE parts) :
    refWalk env path.length [⟨parts, info⟩] path [] = (greedy env parts path).map (fun vs => (info, vs)) := by
  simpa using refWalk_single env path.length parts info path [] hs (Nat.le_refl _)
