import Wayfind.Proofs.SingleRoute

/-! # C12 — captures are greedy, leftmost parameter first
`greedy` (Spec/Greedy.lean) is the leftmost-longest assignment written directly: each parameter, from the left, takes
the longest acceptable value for which the rest of the path can still be matched. The theorem: a router that holds
exactly one group-free template answers every path with `greedy` — whether a parameter fills a segment or shares it
with literal text, for every constraint environment. -/

theorem C12_single_template_is_greedy (env : Env) (builtins : List (Bytes × Bytes)) (t : Bytes) (d : Nat) (raw : Bytes)
    (parts : List Part) (r : Router) (hp : parseTemplates t = .ok [(raw, parts)])
    (hi : ({ registry := builtins } : Router).insert t d = .ok r) (path : Bytes) :
    r.search env path = (greedy env parts path).map (fun vs => ⟨t, none, d, vs⟩) :=
  single_template_search env builtins t d raw parts r hp hi path

/-- list level: with a single route the documented walk returns the leftmost-longest assignment -/
theorem C12_single_route_walk_is_greedy (env : Env) (parts : List Part) (info : Info) (path : Bytes) (hs : statsNE parts) :
    refWalk env path.length [⟨parts, info⟩] path [] = (greedy env parts path).map (fun vs => (info, vs)) := by
  simpa using refWalk_single env path.length parts info path [] hs (Nat.le_refl _)
