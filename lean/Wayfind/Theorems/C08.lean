import Wayfind.Proofs.FindOpt
import Wayfind.Proofs.FindDelete

/-! # C08 — insert refuses exactly the structural duplicates
The conflict test of `Router::insert` is `find` on the parts of every expansion. The theorems: the tree is a finite
map keyed by well-formed part lists — `find` after `insert` sees exactly the new key in addition to the old ones
(through every radix split), a key is found iff a route with that (normalised) part sequence is stored, and
`optimize` changes no lookup.
Status: **partial** — tree layer; the Router-level statement (conflict list = sorted, duplicate-free list of the live
templates sharing an expansion) needs the registry invariant. -/

theorem C08_find_after_insert (n : Node) (P Q : List Part) (i : Info) (hS : Node.SOK n)
    (hP : altOK P = true) (hQ : altOK Q = true) (hnew : Node.find n P = none) :
    Node.find (Node.insert n P i) Q = if Q = P then some i else Node.find n Q :=
  Node.find_insert n P Q i hS hP hQ hnew

theorem C08_find_iff_route (n : Node) (P : List Part) (i : Info) (hS : Node.Shp n) (hP : wfParts P = true) :
    Node.find n P = some i ↔ ∃ r ∈ Node.routes n, norm r.parts = P ∧ r.info = i :=
  Node.find_iff n P i hS hP

theorem C08_find_ignores_optimize (n : Node) (Q : List Part) (hS : Node.Shp n) :
    Node.find (Node.optimize n) Q = Node.find n Q :=
  Node.find_optimize n Q hS
