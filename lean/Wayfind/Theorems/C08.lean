import Wayfind.Proofs.FindOpt
import Wayfind.Proofs.FindDelete
import Wayfind.Proofs.Registry6
import Wayfind.Proofs.SortDedup

/-! # C08 — insert refuses exactly the structural duplicates
The conflict test of `Router::insert` is `find` on the parts of every expansion. The theorems: the tree is a finite
map keyed by well-formed part lists — `find` after `insert` sees exactly the new key in addition to the old ones
(through every radix split), a key is found iff a route with that (normalised) part sequence is stored, and
`optimize` changes no lookup.
Status: proved on live templates for every history. -/

theorem C08_find_after_insert (n : Node) (P Q : List Part) (i : Info) (hS : Node.SOK n)
    (hP : altOK P = true) (hQ : altOK Q = true) (hnew : Node.find n P = none) :
    Node.find (Node.insert n P i) Q = if Q = P then some i else Node.find n Q :=
  Node.find_insert n P Q i hS hP hQ hnew

theorem C08_find_iff_route (n : Node) (P : List Part) (i : Info) (hS : Node.Shp n) (hP : wfParts P = true) :
    Node.find n P = some i ↔ ∃ r ∈ Node.routes n, norm r.parts = P ∧ r.info = i :=
  Node.find_iff n P i hS hP

theorem C08_find_ignores_optimize (n : Node) (Q : List Part) (hS : Node.Shp n) :
    Node.find (Node.optimize n) Q = Node.find n Q :=
  Node.find_optimize n Q hS

/-- **On live templates.** For a parsed template whose constraints are registered: `insert` fails with a conflict iff
some expansion has the same part sequence as an expansion of a live template; the error names exactly the live
templates that collide … -/
theorem C08_conflict_iff_structural_duplicate (r : Router) (L : List LiveT) (h : Live r L) (t : Bytes) (d : Nat)
    (ts : List (Bytes × List Part)) (hp : parseTemplates t = .ok ts)
    (hknown : firstUnknown (fun c => r.registry.any (·.1 == c)) ts = none) :
    ((∃ cs, r.insert t d = .error (.conflict t cs)) ↔ ∃ lt ∈ L, ∃ e ∈ lt.exps, ∃ e' ∈ ts, e.2 = e'.2) ∧
    (∀ cs, r.insert t d = .error (.conflict t cs) →
      ∀ y, y ∈ cs ↔ ∃ lt ∈ L, lt.template = y ∧ ∃ e ∈ lt.exps, ∃ e' ∈ ts, e.2 = e'.2) :=
  insert_conflict_iff_live h t d ts hp hknown

/-- … each exactly once, in sorted order: the list is strictly increasing -/
theorem C08_conflict_list_strictly_sorted (r : Router) (t t' : Bytes) (d : Nat) (cs : List Bytes)
    (h : r.insert t d = .error (.conflict t' cs)) : SortedLt cs := by
  obtain ⟨ts, _, _, _, _, hcs⟩ := (Router.insert_conflict_iff r t d t' cs).1 h
  rw [hcs]; exact conflict_list_sorted _

/-- otherwise the insert succeeds and every expansion becomes routable -/
theorem C08_success_makes_expansions_routable (env : Env) (r r' : Router) (L : List LiveT) (h : Live r L) (t : Bytes) (d : Nat)
    (hi : r.insert t d = .ok r') (ts : List (Bytes × List Part)) (hp : parseTemplates t = .ok ts)
    (path : Bytes) (hfit : ∃ e ∈ ts, ∃ vs, Fits env e.2 path vs) : (r'.search env path).isSome = true :=
  insert_routes env h hi ts hp path hfit
