import Wayfind.Proofs.Reachable
import Wayfind.Proofs.FindDelete
import Wayfind.Proofs.InsShp
import Wayfind.Proofs.Registry11
import Wayfind.Proofs.Unique5

/-! # C10 — failed calls change nothing; insert followed by delete is the identity
`C10_insert_error_atomic`: a failing `insert` leaves the router state untouched (in the model a failing insert returns
no state at all; the step function keeps the old one). `C10_delete_validation_atomic`: `delete` changes the state only
after all three validation steps (parse, mismatch scan, not-found scan) have passed. `C10_roundtrip_lookup`: inserting
a new route and deleting it again restores every lookup of the tree (through radix split and merge) and hands back
what was inserted.
Status: **proved for every search result and for the printed tree, for every history.** A failing call returns the
old state unchanged (so drawing and searches are trivially the same); the round trip restores every lookup
(`insert_delete_roundtrip_find`), and since both trees are canonical (`reachable_canon`) the drawing is restored too
(`C10_insert_then_delete_restores_tree`, through `Node.skel_unique`). Clones are the subject of C16. -/

theorem C10_insert_error_atomic (r : Router) (t : Bytes) (d : Nat) (e : InsertErr) (h : r.insert t d = .error e) :
    r.step (.insert t d) = r := by
  simp [Router.step, h]

theorem C10_delete_validation_atomic (r : Router) (t : Bytes) :
    (r.delete t).2 = r ∨
    ∃ ts, parseTemplates t = .ok ts ∧ mismatchOf r.root t ts = none ∧
      ts.all (fun e => (Node.find r.root e.2).isSome) = true ∧ r.delete t = r.deleteOk t ts := by
  unfold Router.delete
  split
  · exact Or.inl rfl
  · rename_i ts hp
    split
    · exact Or.inl rfl
    · rename_i hm
      split
      · exact Or.inl rfl
      · rename_i hany
        refine Or.inr ⟨ts, hp, hm, ?_, rfl⟩
        simp only [List.any_eq_true, not_exists, not_and, Bool.not_eq_true, List.all_eq_true] at hany ⊢
        intro e he
        have := hany e he
        cases hf : Node.find r.root e.2 <;> simp_all

theorem C10_roundtrip_lookup (n : Node) (P Q : List Part) (i : Info) (hS : Node.Shp n) (hSOK : Node.SOK n)
    (hP : wfParts P = true) (hQ : wfParts Q = true) (hnew : Node.find n P = none) :
    Node.find (Node.delete false (Node.insert n P i) P).1 Q = Node.find n Q ∧
    (Node.delete false (Node.insert n P i) P).2 = some i := by
  have hS' := (Node.insert_Shp n P i hS hP).1
  obtain ⟨h1, h2⟩ := Node.find_delete (Node.insert n P i) false P Q hS' hP hQ
  have hf := Node.find_insert n P Q i hSOK (wfParts_altOK P hP) (wfParts_altOK Q hQ) hnew
  have hfP := Node.find_insert n P P i hSOK (wfParts_altOK P hP) (wfParts_altOK P hP) hnew
  refine ⟨?_, by rw [h2, hfP]; simp⟩
  rw [h1, hf]
  by_cases hq : Q = P
  · subst hq; simp [hnew]
  · simp [hq]

/-- **On live templates.** A `delete` that returns an error — malformed template, mismatch, not found, including the
late not-found after the loop — has changed nothing (the late not-found is unreachable: reference counts are exact). -/
theorem C10_delete_error_atomic (r : Router) (L : List LiveT) (h : Live r L) (t : Bytes) (e : DeleteErr)
    (he : (r.delete t).1 = .error e) : (r.delete t).2 = r :=
  delete_error_atomic h t e he

/-- after a successful `insert(t, d)`, `delete(t)` returns `d` and every search answers as before the insert -/
theorem C10_insert_then_delete_is_identity (env : Env) (r r' : Router) (L : List LiveT) (h : Live r L) (t : Bytes) (d : Nat)
    (hi : r.insert t d = .ok r') (ts : List (Bytes × List Part)) (hp : parseTemplates t = .ok ts) :
    (r'.delete t).1 = .ok d ∧ ∀ path, (r'.delete t).2.search env path = r.search env path :=
  insert_delete_roundtrip env h hi ts hp

/-- a failing call leaves the printed tree as it was -/
theorem C10_failed_call_keeps_tree (r : Router) (L : List LiveT) (h : Live r L) (c : Call)
    (hfail : match c with
      | .insert t d => ∃ e, r.insert t d = .error e
      | .delete t => ∃ e, (r.delete t).1 = .error e
      | .constraint n ty => ∃ e, r.constraint n ty = .error e
      | .clone => True) :
    (r.step c).display = r.display := by
  cases c with
  | insert t d => obtain ⟨e, he⟩ := hfail; simp [Router.step, he]
  | delete t =>
    obtain ⟨e, he⟩ := hfail
    simp only [Router.step]
    rw [C10_delete_error_atomic r L h t e he]
  | constraint n ty => obtain ⟨e, he⟩ := hfail; simp [Router.step, he]
  | clone => exact Router.clone_display r

/-- **Printing half of the round trip.** After a successful `insert(t, d)`, `delete(t)` restores the printed tree. -/
theorem C10_insert_then_delete_restores_tree (r r' : Router) (L : List LiveT) (h : Live r L) (t : Bytes) (d : Nat)
    (hi : r.insert t d = .ok r') (ts : List (Bytes × List Part)) (hp : parseTemplates t = .ok ts) :
    (r'.delete t).2.display = r.display :=
  insert_delete_roundtrip_display h hi ts hp
