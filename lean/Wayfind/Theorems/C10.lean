import Wayfind.Proofs.Reachable
import Wayfind.Proofs.FindDelete
import Wayfind.Proofs.InsShp

/-! # C10 — failed calls change nothing; insert followed by delete is the identity
`C10_insert_error_atomic`: a failing `insert` leaves the router state untouched (in the model a failing insert returns
no state at all; the step function keeps the old one). `C10_delete_validation_atomic`: `delete` changes the state only
after all three validation steps (parse, mismatch scan, not-found scan) have passed. `C10_roundtrip_lookup`: inserting
a new route and deleting it again restores every lookup of the tree (through radix split and merge) and hands back
what was inserted.
Status: **partial** — that the late `NotFound` of `delete` (after the mutation) is unreachable needs the
reference-count invariant; restoring the *printed* tree needs canonical-tree uniqueness. Both are tied by the FUN
oracle (same live set ⇒ same drawing and results) over detours and failing calls in every history. -/

theorem C10_insert_error_atomic (r : Router) (t : Bytes) (d : Nat) (e : InsertErr) (h : r.insert t d = .error e) :
    r.step (.insert t d) = r := by
  simp [Router.step, h]

theorem C10_delete_validation_atomic (r : Router) (t : Bytes) :
    (r.delete t).2 = r ∨
    ∃ ts, parseTemplates t = .ok ts ∧ mismatchOf r.root t ts = none ∧
      ts.all (fun e => (Node.find r.root e.2).isSome) = true ∧ r.delete t = r.deleteOk t ts := by
  unfold Router.delete
  split
  · exact Or.inl rfl
  · rename_i ts hp
    split
    · exact Or.inl rfl
    · rename_i hm
      split
      · exact Or.inl rfl
      · rename_i hany
        refine Or.inr ⟨ts, hp, hm, ?_, rfl⟩
        simp only [List.any_eq_true, not_exists, not_and, Bool.not_eq_true, List.all_eq_true] at hany ⊢
        intro e he
        have := hany e he
        cases hf : Node.find r.root e.2 <;> simp_all

theorem C10_roundtrip_lookup (n : Node) (P Q : List Part) (i : Info) (hS : Node.Shp n) (hSOK : Node.SOK n)
    (hP : wfParts P = true) (hQ : wfParts Q = true) (hnew : Node.find n P = none) :
    Node.find (Node.delete false (Node.insert n P i) P).1 Q = Node.find n Q ∧
    (Node.delete false (Node.insert n P i) P).2 = some i := by
  have hS' := (Node.insert_Shp n P i hS hP).1
  obtain ⟨h1, h2⟩ := Node.find_delete (Node.insert n P i) false P Q hS' hP hQ
  have hf := Node.find_insert n P Q i hSOK (wfParts_altOK P hP) (wfParts_altOK Q hQ) hnew
  have hfP := Node.find_insert n P P i hSOK (wfParts_altOK P hP) (wfParts_altOK P hP) hnew
  refine ⟨?_, by rw [h2, hfP]; simp⟩
  rw [h1, hf]
  by_cases hq : Q = P
  · subst hq; simp [hnew]
  · simp [hq]
