import Wayfind.Proofs.Reachable
import Wayfind.Model.Errors
import Wayfind.Generated.Facts
import Wayfind.Proofs.ParseErrors
import Wayfind.Proofs.CheckedParser3
import Wayfind.Proofs.SearchC3
import Wayfind.Proofs.ParserC2
import Wayfind.Proofs.IndexGuards

/-! # C07 — no input makes the router panic
The model is written with total list operations (`take`, `drop`, `getElem?`, truncated subtraction), so totality of
the model is not the claim. The claim has three parts.
(1) *Ledger* (a tripwire of the check, not a theorem — fifth session): the partial operations of the Rust source — index
and slice expressions, `unwrap`/`expect`, subtractions — are counted per file on every run; a deviation from the pinned
counts makes the check run all its suites at the thorough size as well (a count says nothing about the model, and every
behaviour-preserving rewrite of those files changes it).
(2) *Registry lookup cannot miss*: `check_constraint` unwraps `constraints.get(name)`; `C07_constraints_registered`
shows that a successful insert only stores constraint names that are registered, and registrations are never removed
(`C07_registry_grows`).
(3) *Tree invariants* on every reachable state (`reachable_good3`): labels are non-empty (`prefix[0]` is in range),
`position`-found indices exist, catch-all nodes carry data.
(4) *The renderer's `replace_range` is in bounds*: the only panic site of `impl Display for TemplateError` is the
duplicate-parameter caret line; `C07_duplicate_ranges_in_bounds` shows the two ranges the parser reports are disjoint,
ordered and inside the template.
(5) *The parser's index arithmetic is in range* (`C07_parser_never_panics`): `Model/CheckedParser.lean` is a second,
position-based transcription of `src/parser.rs` in which every `input[i]`, every `&input[a..b]` and every `usize`
subtraction (`cursor - 1`, `start + group - 1`, `end - cursor`, `next_cursor - start`, `&name[1..]`, …) is an explicit
check that yields `panic`; the theorem shows no check ever fires, for every input and every fuel, and
`C07_parser_total` that the transcription always answers with expansions or a `TemplateError` (the fuel `(n+2)²` of the
expander suffices: a potential `needE` bounds scan steps plus nested calls) (loop invariants: the
range ends inside the input, `group ≤ cursor`, an open parenthesis implies `group ≥ 1`; every recorded parameter starts
at or before the cursor). The transcription *is* the list-based model (`C07_checked_parser_is_model`, fourth session; the driver
still runs both on every `parse` operation, class `checked`), and the list-based model is compared with the real crate.
(6) *The search's index arithmetic and registry lookup are in range* (`C07_search_never_panics`):
`Model/CheckedSearch.lean` is a second, position-based transcription of `src/node/search.rs`, loop by loop — the counter
`consumed`, `path[consumed]`, `&path[..consumed]`, `&path[consumed..]`, `&path[prefix.len()..]`, the eagerly evaluated
`path.len() - consumed` inside `unwrap_or`, `position(..)`, and `constraints.get(name).unwrap()` of `check_constraint`
are explicit checks that yield `panic`. On every router reached through any history of API calls (clone steps included)
no check fires, for every path and every constraint environment, and the result is the list-based model's
`Node.search` (`C07_checked_search_is_model`: each `while` loop of the code computes `tryCands` over the candidate list
— `candsInline` / `candsSegment` — that the model writes down directly; the registry lookup cannot miss because every
constraint name stored in the tree belongs to a live template, whose names were registered when it was inserted,
`live_consOK`).
(7) *The remaining index sites whose safety is not local* (`Proofs/IndexGuards.lean`): `insert_static`'s
`.find(|child| child.state.prefix[0] == prefix[0])`, `find_static`'s `prefix[0]`, and `Display`'s `count -= 1`. `insertIdx` /
`findIdx` / `linesIdx` collect, along the recursion path of the model (which follows the code's), the condition under which
each evaluation is in range; `C07_insert_find_index_in_range`: they hold on every reachable router for every expansion of
every parsed template (labels are non-empty by `Shp`, the parser's literal parts are non-empty and a remainder
`prefix[common..]` is only passed on when it is non-empty); `C07_display_count_in_range`: on every tree. All other index and
slice expressions of insert/find/delete are guarded by a length test or come from `position` in the adjacent lines.
Status: **partial** — stack depth (recursion proportional to group nesting and tree depth), allocation failure, and
`usize`/`i32` wrap-around (needs inputs ≥ 2^31 bytes) are outside any model; the slices of insert/find/delete (`prefix[0]`, guarded by the non-empty-label
invariant of (3)) are not transcribed with checks; they, and the error renderer, are tied by running every operation of
every suite under `catch_unwind` in a build with overflow checks and debug assertions (oracle C07 = a `panic` line). -/

theorem C07_registry_grows (r : Router) (c : Call) (name : Bytes) (h : r.registry.any (·.1 == name) = true) :
    (r.step c).registry.any (·.1 == name) = true := by
  cases c with
  | constraint n ty =>
    simp only [Router.step, Router.constraint]
    split <;> rename_i heq
    · split at heq
      · cases heq
      · injection heq with heq; subst heq
        simp only [List.any_append, Bool.or_eq_true]; exact Or.inl h
    · exact h
  | insert t d =>
    simp only [Router.step]
    cases hi : r.insert t d with
    | error e => exact h
    | ok r' =>
      obtain ⟨ts, _, _, _, rfl⟩ := (Router.insert_ok_iff r r' t d).1 hi
      simp only [Router.insertOk]
      split <;> exact h
  | delete t =>
    simp only [Router.step, Router.delete]
    split
    · exact h
    · split
      · exact h
      · split
        · exact h
        · simp only [Router.deleteOk]; split <;> exact h
  | clone => exact h

/-- a successful insert stores only constraint names that are registered -/
theorem C07_constraints_registered (r r' : Router) (t : Bytes) (d : Nat) (h : r.insert t d = .ok r') :
    ∃ ts, parseTemplates t = .ok ts ∧ ∀ e ∈ ts, ∀ p ∈ e.2, ∀ c, p.consName = some c → r.registry.any (·.1 == c) = true := by
  obtain ⟨ts, hp, hu, _, _⟩ := (Router.insert_ok_iff r r' t d).1 h
  refine ⟨ts, hp, ?_⟩
  intro e he p hpm c hc
  unfold firstUnknown at hu
  have := List.find?_eq_none.1 hu c (by
    simp only [List.mem_flatMap, List.mem_filterMap, List.mem_reverse]
    exact ⟨e, he, p, hpm, hc⟩)
  simpa using this

/-- the ranges of a duplicate-parameter error fit the line of `template.len()` spaces they are written into -/
theorem C07_duplicate_ranges_in_bounds (input t n : Bytes) (f fl s sl : Nat)
    (h : parseTemplates input = .error (.duplicateParameter t n f fl s sl)) : f + fl ≤ s ∧ s + sl ≤ t.length := by
  rcases parseTemplates_error_cases input _ h with ⟨he, _⟩ | ⟨p, hp | hp⟩ | ⟨es, raw, _, _, htpl, hin⟩
  · cases he
  · cases hp
  · cases hp
  · simp only [TErr.tpl, Option.some.injEq] at htpl
    subst htpl
    exact hin

/-- **`ParsedTemplate::new` never panics.** In the checked, position-based transcription of `src/parser.rs` no index, slice
or `usize` subtraction is out of range, whatever the input (any bytes, not only UTF-8) -/
theorem C07_parser_never_panics (input : Bytes) (site : String) : parseC input ≠ .error (.panic site) :=
  parseC_never_panics input site

/-- **the position-based transcription is the list-based model**: same expansions and parts, same `TemplateError` with
the same positions — so everything proved about `parseTemplates` (it accepts exactly the documented grammar, its errors
name the real fault: C11, C14) holds of the transcription that keeps the Rust code's indices, and the run-time comparison
of the two (class `checked`) is a theorem (`Proofs/ParserC1-2`: static run, brace scan, parameter validation, the
`parse_template` loop, and the group expander by simultaneous induction on the fuel of `expandC` with the potential
`needL`) -/
theorem C07_checked_parser_is_model (input : Bytes) : parseC input = liftT (parseTemplates input) :=
  parseC_eq_parseTemplates input

/-- … and it always answers: expansions, or a `TemplateError` — the fuel of the model's loops is never exhausted -/
theorem C07_parser_total (input : Bytes) : (∃ ts, parseC input = .ok ts) ∨ (∃ e, parseC input = .error (.terr e)) :=
  parseC_total input

/-- the expander alone, on any sub-range that ends inside the input, with any fuel -/
theorem C07_expander_never_panics (input : Bytes) (fuel start end_ : Nat) (h : end_ ≤ input.length) (site : String) :
    expandC input fuel start end_ ≠ .error (.panic site) :=
  expandC_never_panics input fuel start end_ h site

/-- non-vacuity: the checks are live — outside the invariant they do fire (`)` at depth 1 with `cursor = group = 0`) -/
example : expandLoopC [41] 5 0 1 0 0 1 [[]] = .error (.panic "expand: cursor - 1") := by
  simp [expandLoopC, getB, subC]

/-- **`Router::search` never panics** on a router reached through any history of `constraint` / `insert` / `delete` /
`clone` calls: in the checked, position-based transcription of `src/node/search.rs` no index, slice, `usize` subtraction
or `constraints.get(name).unwrap()` fails, whatever the path (any bytes) and the constraint functions -/
theorem C07_search_never_panics (r : Router) (L : List LiveT) (h : Live r L) (env : Env) (path : Bytes) (site : String) :
    Node.searchC ⟨env, fun c => r.registry.any (·.1 == c)⟩ r.root path [] ≠ .error site := by
  rw [live_searchC h env path []]
  intro hh; cases hh

/-- … and it computes what the list-based model computes (whose capture loops are candidate lists) -/
theorem C07_checked_search_is_model (r : Router) (L : List LiveT) (h : Live r L) (env : Env) (path : Bytes) :
    Node.searchC ⟨env, fun c => r.registry.any (·.1 == c)⟩ r.root path [] = .ok (Node.search env r.root path []) :=
  live_searchC h env path []

/-- tree level: any tree whose constraint names are known, any path — the loops' counter arithmetic alone -/
theorem C07_search_loops_in_range (ce : CEnv) (n : Node) (h : Node.consOK ce.known n) (path : Bytes) (ps : Params) (site : String) :
    Node.searchC ce n path ps ≠ .error site :=
  Node.searchC_never_panics ce n h path ps site

def isPanic : PRes → Bool | .error _ => true | .ok _ => false

/-- non-vacuity: the checks are live — an unregistered constraint name in the tree does make the lookup fail, and a
registered one does not -/
example : isPanic (Node.searchC ⟨envT, fun _ => false⟩
    (Node.insert Node.empty [.stat [47], .par .dynC {name := [97], cons := [117, 56]}] iw) [47, 49] []) = true ∧
    isPanic (Node.searchC ⟨envT, fun _ => true⟩
    (Node.insert Node.empty [.stat [47], .par .dynC {name := [97], cons := [117, 56]}] iw) [47, 49] []) = false := by decide

/-- `insert_static` / `find_static`: every `prefix[0]` and `child.state.prefix[0]` evaluated while inserting or looking up
an expansion of a parsed template on a reachable router is in range -/
theorem C07_insert_find_index_in_range (r : Router) (L : List LiveT) (h : Live r L) (t : Bytes) (ts : List (Bytes × List Part))
    (hp : parseTemplates t = .ok ts) : ∀ e ∈ ts, Node.insertIdx r.root e.2 ∧ Node.findIdx r.root e.2 :=
  live_insertIdx h t ts hp

/-- `Display`: `count -= 1` never underflows, on any tree -/
theorem C07_display_count_in_range (n : Node) : Node.linesIdx n := Node.linesIdx_all n

/-- non-vacuity: the guard is a real condition — an empty label in the tree falsifies it -/
example : ¬ Node.insertIdx (.mk none (.cons {pre := []} Node.empty .nil) .nil .nil .nil .nil .nil .nil false false false)
    [.stat [47]] := by
  simp [Node.insertIdx, Kids.insertStaticIdx]
