import Wayfind.Model.Router
import Wayfind.Generated.Facts
import Wayfind.Spec.Fits

/-! # C13 — constraints: unique names, unknown names refused, rejection skips one value
Registry half (model of `Router::constraint` / the unknown-constraint scan of `Router::insert`) and the loop lemma
behind "a rejected value makes only that alternative fail": a rejected candidate leaves the capture loop's state
untouched, so shorter and longer values and lower-priority routes are still tried (completeness under arbitrary
constraint environments is C02, the order is C03).
Status: **partial** — "built-ins accept exactly what `FromStr` accepts" is a statement about the Rust standard
library; it is tied by the `fromstr` suite, not by a Lean theorem. -/

theorem C13_duplicate_name_refused (r : Router) (name ty ty' : Bytes) (h : (name, ty) ∈ r.registry) :
    ∃ existing, r.constraint name ty' = .error (.duplicateName name existing ty') ∧ (name, existing) ∈ r.registry := by
  unfold Router.constraint
  cases hf : r.registry.find? (fun e => e.1 == name) with
  | none =>
    have := List.find?_eq_none.1 hf (name, ty) h
    simp at this
  | some e =>
    refine ⟨e.2, rfl, ?_⟩
    have hm := List.mem_of_find?_eq_some hf
    have hp := List.find?_some hf
    have : e.1 = name := by simpa using hp
    rw [← this]
    exact hm

theorem C13_fresh_name_registered (r : Router) (name ty : Bytes) (h : ∀ e ∈ r.registry, e.1 ≠ name) :
    r.constraint name ty = .ok { r with registry := r.registry ++ [(name, ty)] } := by
  unfold Router.constraint
  have : r.registry.find? (fun e => e.1 == name) = none := by
    apply List.find?_eq_none.2
    intro e he
    simpa using h e he
  rw [this]

theorem C13_unknown_constraint_refused (r : Router) (t : Bytes) (d : Nat) (ts : List (Bytes × List Part)) (c : Bytes)
    (hp : parseTemplates t = .ok ts)
    (hu : firstUnknown (fun c => r.registry.any (·.1 == c)) ts = some c) :
    r.insert t d = .error (.unknownConstraint c) ∧ r.registry.any (·.1 == c) = false := by
  constructor
  · simp [Router.insert, hp, hu]
  · unfold firstUnknown at hu
    have := List.find?_some hu
    simpa using this

/-- a value the constraint (or the UTF-8 test) rejects leaves the loop's running best untouched -/
theorem C13_rejected_value_skips_only_itself (env : Env) (cons : Option Bytes) (name path : Bytes) (ps : Params)
    (k : Bytes → Params → Res) (c : Nat) (cs : List Nat) (best : Res) (hrej : candOk env cons (path.take c) = false) :
    tryCands env cons name path ps k (c :: cs) best = tryCands env cons name path ps k cs best := by
  rw [tryCands_cons]
  simp [stepCand, hrej]

/-! ## generated obligations (re-extracted from /repo's source text on every run) -/

/-- the built-in names the property lists, each with the Rust type whose `FromStr` it must equal:
u8..u128, usize, i8..i128, isize, f32, f64, bool, ipv4 (`Ipv4Addr`), ipv6 (`Ipv6Addr`) -/
def propertyBuiltins : List (Bytes × Bytes) := [([117, 56], [117, 56]), ([117, 49, 54], [117, 49, 54]), ([117, 51, 50], [117, 51, 50]), ([117, 54, 52], [117, 54, 52]), ([117, 49, 50, 56], [117, 49, 50, 56]), ([117, 115, 105, 122, 101], [117, 115, 105, 122, 101]), ([105, 56], [105, 56]), ([105, 49, 54], [105, 49, 54]), ([105, 51, 50], [105, 51, 50]), ([105, 54, 52], [105, 54, 52]), ([105, 49, 50, 56], [105, 49, 50, 56]), ([105, 115, 105, 122, 101], [105, 115, 105, 122, 101]), ([102, 51, 50], [102, 51, 50]), ([102, 54, 52], [102, 54, 52]), ([98, 111, 111, 108], [98, 111, 111, 108]), ([105, 112, 118, 52], [73, 112, 118, 52, 65, 100, 100, 114]), ([105, 112, 118, 54], [73, 112, 118, 54, 65, 100, 100, 114])]

/-- every built-in name of the property is implemented in `src/constraints.rs` for exactly the corresponding Rust type
(no second `impl` claims the name). Further built-ins may exist: the property says nothing about them. -/
theorem C13_builtins_table :
    propertyBuiltins.all (fun p => (Generated.builtinImpls.filter (fun q => q.1 == p.1)) == [p]) = true := by decide

/-- `Router::new` registers each of those types (whatever else it registers) -/
theorem C13_builtins_registered :
    propertyBuiltins.all (fun p => Generated.builtinRegistrations.contains p.2) = true := by decide

/-- the `check` of each of those types is literally `part.parse::<Self>().is_ok()`, i.e. Rust's `FromStr` for that type -/
theorem C13_builtins_are_fromstr :
    propertyBuiltins.all (fun p => Generated.builtinFromStr.contains p.2) = true := by decide
