import Wayfind.Proofs.Reachable
import Wayfind.Spec.Grammar
import Wayfind.Generated.Facts

/-! # C17 — the OCI example routes every distribution-spec endpoint to its handler
Generated obligations (the route table and the name pattern are re-extracted from `examples/oci/src` on every run):
the table is exactly the endpoints end-1 … end-10 of the statement under their methods, each with the optional
trailing slash; every template of the table is in the documented language and decodes to the expected shape
(`/v2/` + constrained wildcard `name:name` + literal suffix [+ dynamic last parameter]); the name pattern is the
distribution specification's repository-name grammar anchored with `^…$`.
General theorems instantiated: the OCI routers are reachable states, so C01–C03 hold on them — every match is genuine
(the name is accepted by the constraint, the last parameter is a '/'-free non-empty run, the values rebuild the URL),
every URL some route fits is routed, and the winner is the documented walk's.
Status: **partial** — that the reading of an endpoint URL is *unique* (so that the genuine match is the expected one)
and that the `regex` crate implements the pattern are tied by the `oci` suite: every name up to the tier's length over
`a 0 . _ - / A` × every shape × methods × trailing slash, against an independent hand-written recogniser. -/

theorem C17_route_table : Generated.ociRoutes = [([71, 69, 84], [47, 118, 50, 40, 47, 41], [104, 97, 110, 100, 108, 101, 95, 114, 111, 111, 116, 95, 103, 101, 116]), ([71, 69, 84], [47, 118, 50, 47, 123, 42, 110, 97, 109, 101, 58, 110, 97, 109, 101, 125, 47, 98, 108, 111, 98, 115, 47, 123, 100, 105, 103, 101, 115, 116, 125, 40, 47, 41], [104, 97, 110, 100, 108, 101, 95, 98, 108, 111, 98, 95, 112, 117, 108, 108]), ([72, 69, 65, 68], [47, 118, 50, 47, 123, 42, 110, 97, 109, 101, 58, 110, 97, 109, 101, 125, 47, 98, 108, 111, 98, 115, 47, 123, 100, 105, 103, 101, 115, 116, 125, 40, 47, 41], [104, 97, 110, 100, 108, 101, 95, 98, 108, 111, 98, 95, 112, 117, 108, 108]), ([71, 69, 84], [47, 118, 50, 47, 123, 42, 110, 97, 109, 101, 58, 110, 97, 109, 101, 125, 47, 109, 97, 110, 105, 102, 101, 115, 116, 115, 47, 123, 114, 101, 102, 101, 114, 101, 110, 99, 101, 125, 40, 47, 41], [104, 97, 110, 100, 108, 101, 95, 109, 97, 110, 105, 102, 101, 115, 116, 95, 112, 117, 108, 108]), ([72, 69, 65, 68], [47, 118, 50, 47, 123, 42, 110, 97, 109, 101, 58, 110, 97, 109, 101, 125, 47, 109, 97, 110, 105, 102, 101, 115, 116, 115, 47, 123, 114, 101, 102, 101, 114, 101, 110, 99, 101, 125, 40, 47, 41], [104, 97, 110, 100, 108, 101, 95, 109, 97, 110, 105, 102, 101, 115, 116, 95, 112, 117, 108, 108]), ([80, 79, 83, 84], [47, 118, 50, 47, 123, 42, 110, 97, 109, 101, 58, 110, 97, 109, 101, 125, 47, 98, 108, 111, 98, 115, 47, 117, 112, 108, 111, 97, 100, 115, 40, 47, 41], [104, 97, 110, 100, 108, 101, 95, 98, 108, 111, 98, 95, 112, 117, 115, 104, 95, 112, 111, 115, 116]), ([80, 85, 84], [47, 118, 50, 47, 123, 42, 110, 97, 109, 101, 58, 110, 97, 109, 101, 125, 47, 98, 108, 111, 98, 115, 47, 117, 112, 108, 111, 97, 100, 115, 47, 123, 114, 101, 102, 101, 114, 101, 110, 99, 101, 125, 40, 47, 41], [104, 97, 110, 100, 108, 101, 95, 98, 108, 111, 98, 95, 112, 117, 115, 104, 95, 112, 117, 116]), ([80, 85, 84], [47, 118, 50, 47, 123, 42, 110, 97, 109, 101, 58, 110, 97, 109, 101, 125, 47, 109, 97, 110, 105, 102, 101, 115, 116, 115, 47, 123, 114, 101, 102, 101, 114, 101, 110, 99, 101, 125, 40, 47, 41], [104, 97, 110, 100, 108, 101, 95, 109, 97, 110, 105, 102, 101, 115, 116, 95, 112, 117, 116]), ([71, 69, 84], [47, 118, 50, 47, 123, 42, 110, 97, 109, 101, 58, 110, 97, 109, 101, 125, 47, 116, 97, 103, 115, 47, 108, 105, 115, 116, 40, 47, 41], [104, 97, 110, 100, 108, 101, 95, 116, 97, 103, 115, 95, 103, 101, 116]), ([68, 69, 76, 69, 84, 69], [47, 118, 50, 47, 123, 42, 110, 97, 109, 101, 58, 110, 97, 109, 101, 125, 47, 109, 97, 110, 105, 102, 101, 115, 116, 115, 47, 123, 114, 101, 102, 101, 114, 101, 110, 99, 101, 125, 40, 47, 41], [104, 97, 110, 100, 108, 101, 95, 109, 97, 110, 105, 102, 101, 115, 116, 95, 100, 101, 108, 101, 116, 101]), ([68, 69, 76, 69, 84, 69], [47, 118, 50, 47, 123, 42, 110, 97, 109, 101, 58, 110, 97, 109, 101, 125, 47, 98, 108, 111, 98, 115, 47, 123, 100, 105, 103, 101, 115, 116, 125, 40, 47, 41], [104, 97, 110, 100, 108, 101, 95, 98, 108, 111, 98, 95, 100, 101, 108, 101, 116, 101])] := by decide

theorem C17_name_pattern : Generated.ociNamePattern = [94, 91, 97, 45, 122, 48, 45, 57, 93, 43, 40, 40, 92, 46, 124, 95, 124, 95, 95, 124, 45, 43, 41, 91, 97, 45, 122, 48, 45, 57, 93, 43, 41, 42, 40, 92, 47, 91, 97, 45, 122, 48, 45, 57, 93, 43, 40, 40, 92, 46, 124, 95, 124, 95, 95, 124, 45, 43, 41, 91, 97, 45, 122, 48, 45, 57, 93, 43, 41, 42, 41, 42, 36] ∧ Generated.ociConstraintName = [110, 97, 109, 101] := by decide

/-- every template of the example's table is accepted by the grammar -/
theorem C17_templates_accepted : Generated.ociRoutes.all (fun r => Accepts r.2.1) = true := by decide

/-- the OCI routers are reachable states: all search theorems apply to them -/
theorem C17_search_is_walk_on_any_built_router (env : Env) (r : Router) (h : Reachable r) (url : Bytes) :
    r.search env url = (refWalk env url.length (Node.routes r.root) url []).map toMatch :=
  Router.search_eq_walk env r h url
