import Wayfind.Proofs.Reachable
import Wayfind.Spec.Grammar
import Wayfind.Generated.Facts
import Wayfind.Proofs.Oci6
import Wayfind.Proofs.Regex2

/-! # C17 — the OCI example routes every distribution-spec endpoint to its handler
Generated obligations (the route table and the name pattern are re-extracted from `examples/oci/src` on every run):
the table is exactly the endpoints end-1 … end-10 of the statement under their methods, each with the optional
trailing slash; every template of the table is in the documented language and decodes to the expected shape
(`/v2/` + constrained wildcard `name:name` + literal suffix [+ dynamic last parameter]); the name pattern is the
distribution specification's repository-name grammar anchored with `^…$`.
General theorems instantiated: the OCI routers are reachable states, so C01–C03 hold on them — every match is genuine
(the name is accepted by the constraint, the last parameter is a '/'-free non-empty run, the values rebuild the URL),
every URL some route fits is routed, and the winner is the documented walk's.
**The routing theorem** (`C17_endpoint_resolves`, from `oci_resolves`): on any router reached through the API whose live
templates are templates the example registers under one HTTP method, every URL of the form `/v2`,
`/v2/<name>/blobs/<digest>`, `/v2/<name>/manifests/<reference>`, `/v2/<name>/tags/list`, `/v2/<name>/blobs/uploads`,
`/v2/<name>/blobs/uploads/<reference>`, with or without a trailing slash, resolves to the live template of that shape —
reporting its expansion, its data (the handler) and exactly `name = <name>` and the last parameter — **for every name the
constraint accepts, of any length and any number of segments**, and every non-empty '/'-free last parameter. The proof
shows that the reading of the URL is unique: a path that an expansion fits has a fixed pattern of '/'-separated segments
counted from the end (`fits_opat`), the patterns of different templates differ in a literal segment (`opat_inj`; the one
exception, `/v2/<name>/blobs/uploads` read as a blob with digest `uploads`, is excluded because the table registers the
two under different methods — generated obligation `C17_methods_do_not_clash`), and a unique fit is what `search` returns
(`search_unique_fit`, from C01–C03). `C17_get_router_exists` builds the GET router through the API (non-vacuity).
**The name constraint** (`C17_name_pattern_is_grammar`, fifth session): the pattern literal of
`examples/oci/src/constraints/name.rs`, as extracted on this run, is parsed by `parseRe` (a model of anchored regular
expressions: classes, groups, alternation, `+ * ?`) and matched by Brzozowski derivatives; `Re.matches_iff` shows that the matcher
decides the denotation `Re.Lang`, and `OciName.lang_name` that the denotation of this pattern is the repository-name grammar
written out as a grammar (`OciName.IsName`: components joined by '/', a component a word followed by (separator, word)
pairs, a word `[a-z0-9]+`, a separator `.`, `_`, `__` or one or more `-`). Names of any length.
Status: **partial** only in what no model can carry — that the `regex` crate implements the pattern: the harness reports
the crate's answer for every name of the `oci` suite (operation `nameck`: every name up to the tier's length over
`a 0 . _ - / A`, plus a pool of long and odd names) and the judge compares it with the Lean matcher on the same bytes
(oracle C17; stream `nameck`); an independent hand-written recogniser in the harness is compared as well. -/

/-- the endpoints end-1 … end-10 of the statement under their methods, each with the optional trailing slash and its
handler: (method, template, handler) -/
def specRouteTable : List (Bytes × Bytes × Bytes) := [([71, 69, 84], [47, 118, 50, 40, 47, 41], [104, 97, 110, 100, 108, 101, 95, 114, 111, 111, 116, 95, 103, 101, 116]), ([71, 69, 84], [47, 118, 50, 47, 123, 42, 110, 97, 109, 101, 58, 110, 97, 109, 101, 125, 47, 98, 108, 111, 98, 115, 47, 123, 100, 105, 103, 101, 115, 116, 125, 40, 47, 41], [104, 97, 110, 100, 108, 101, 95, 98, 108, 111, 98, 95, 112, 117, 108, 108]), ([72, 69, 65, 68], [47, 118, 50, 47, 123, 42, 110, 97, 109, 101, 58, 110, 97, 109, 101, 125, 47, 98, 108, 111, 98, 115, 47, 123, 100, 105, 103, 101, 115, 116, 125, 40, 47, 41], [104, 97, 110, 100, 108, 101, 95, 98, 108, 111, 98, 95, 112, 117, 108, 108]), ([71, 69, 84], [47, 118, 50, 47, 123, 42, 110, 97, 109, 101, 58, 110, 97, 109, 101, 125, 47, 109, 97, 110, 105, 102, 101, 115, 116, 115, 47, 123, 114, 101, 102, 101, 114, 101, 110, 99, 101, 125, 40, 47, 41], [104, 97, 110, 100, 108, 101, 95, 109, 97, 110, 105, 102, 101, 115, 116, 95, 112, 117, 108, 108]), ([72, 69, 65, 68], [47, 118, 50, 47, 123, 42, 110, 97, 109, 101, 58, 110, 97, 109, 101, 125, 47, 109, 97, 110, 105, 102, 101, 115, 116, 115, 47, 123, 114, 101, 102, 101, 114, 101, 110, 99, 101, 125, 40, 47, 41], [104, 97, 110, 100, 108, 101, 95, 109, 97, 110, 105, 102, 101, 115, 116, 95, 112, 117, 108, 108]), ([80, 79, 83, 84], [47, 118, 50, 47, 123, 42, 110, 97, 109, 101, 58, 110, 97, 109, 101, 125, 47, 98, 108, 111, 98, 115, 47, 117, 112, 108, 111, 97, 100, 115, 40, 47, 41], [104, 97, 110, 100, 108, 101, 95, 98, 108, 111, 98, 95, 112, 117, 115, 104, 95, 112, 111, 115, 116]), ([80, 85, 84], [47, 118, 50, 47, 123, 42, 110, 97, 109, 101, 58, 110, 97, 109, 101, 125, 47, 98, 108, 111, 98, 115, 47, 117, 112, 108, 111, 97, 100, 115, 47, 123, 114, 101, 102, 101, 114, 101, 110, 99, 101, 125, 40, 47, 41], [104, 97, 110, 100, 108, 101, 95, 98, 108, 111, 98, 95, 112, 117, 115, 104, 95, 112, 117, 116]), ([80, 85, 84], [47, 118, 50, 47, 123, 42, 110, 97, 109, 101, 58, 110, 97, 109, 101, 125, 47, 109, 97, 110, 105, 102, 101, 115, 116, 115, 47, 123, 114, 101, 102, 101, 114, 101, 110, 99, 101, 125, 40, 47, 41], [104, 97, 110, 100, 108, 101, 95, 109, 97, 110, 105, 102, 101, 115, 116, 95, 112, 117, 116]), ([71, 69, 84], [47, 118, 50, 47, 123, 42, 110, 97, 109, 101, 58, 110, 97, 109, 101, 125, 47, 116, 97, 103, 115, 47, 108, 105, 115, 116, 40, 47, 41], [104, 97, 110, 100, 108, 101, 95, 116, 97, 103, 115, 95, 103, 101, 116]), ([68, 69, 76, 69, 84, 69], [47, 118, 50, 47, 123, 42, 110, 97, 109, 101, 58, 110, 97, 109, 101, 125, 47, 109, 97, 110, 105, 102, 101, 115, 116, 115, 47, 123, 114, 101, 102, 101, 114, 101, 110, 99, 101, 125, 40, 47, 41], [104, 97, 110, 100, 108, 101, 95, 109, 97, 110, 105, 102, 101, 115, 116, 95, 100, 101, 108, 101, 116, 101]), ([68, 69, 76, 69, 84, 69], [47, 118, 50, 47, 123, 42, 110, 97, 109, 101, 58, 110, 97, 109, 101, 125, 47, 98, 108, 111, 98, 115, 47, 123, 100, 105, 103, 101, 115, 116, 125, 40, 47, 41], [104, 97, 110, 100, 108, 101, 95, 98, 108, 111, 98, 95, 100, 101, 108, 101, 116, 101])]

/-- the example registers exactly the routes of `specRouteTable` — as a set: every expected registration is there, nothing
else is, nothing twice. The order of the registrations is not part of the property (C05: routing does not depend on it). -/
theorem C17_route_table :
    (specRouteTable.all (fun x => Generated.ociRoutes.contains x) && Generated.ociRoutes.all (fun x => specRouteTable.contains x) &&
      Generated.ociRoutes.length == specRouteTable.length) = true := by decide

theorem C17_name_pattern : Generated.ociNamePattern = [94, 91, 97, 45, 122, 48, 45, 57, 93, 43, 40, 40, 92, 46, 124, 95, 124, 95, 95, 124, 45, 43, 41, 91, 97, 45, 122, 48, 45, 57, 93, 43, 41, 42, 40, 92, 47, 91, 97, 45, 122, 48, 45, 57, 93, 43, 40, 40, 92, 46, 124, 95, 124, 95, 95, 124, 45, 43, 41, 91, 97, 45, 122, 48, 45, 57, 93, 43, 41, 42, 41, 42, 36] ∧ Generated.ociConstraintName = [110, 97, 109, 101] := by decide

/-- **The example searches the request path as it was received** (generated obligation). The theorems below are about
`Router::search` on the example's table; the example reaches it through `AppRouter::handle`, and C17 is about *URLs*. The
translator follows the argument of the example's one `.search(…)` call back through `let` bindings, helper-function parameters
and receivers, dropping what is the identity on the text (`&`, `to_owned`, `to_string`, `clone`, `as_str`, `into`,
`String::from`): what is left must be `REQ.uri().path()` — no decoding, normalising, trimming or case folding between the
request and the router (a percent-decoding step there routes `/v2/a%2Fb/tags/list`, whose name violates the grammar). -/
theorem C17_searches_request_path :
    Generated.ociSearchArg = [82, 69, 81, 46, 117, 114, 105, 40, 41, 46, 112, 97, 116, 104, 40, 41] := by decide

/-- every template of the example's table is accepted by the grammar -/
theorem C17_templates_accepted : Generated.ociRoutes.all (fun r => Accepts r.2.1) = true := by decide

/-- the OCI routers are reachable states: all search theorems apply to them -/
theorem C17_search_is_walk_on_any_built_router (env : Env) (r : Router) (h : Reachable r) (url : Bytes) :
    r.search env url = (refWalk env url.length (Node.routes r.root) url []).map toMatch :=
  Router.search_eq_walk env r h url

/-- generated obligation: every template of the example's table is one of the six shapes -/
theorem C17_table_is_family :
    Generated.ociRoutes.all (fun x => [OK.root, .blob, .manifest, .tags, .uploads, .uploadsRef].any (fun k => x.2.1 == k.template)) = true := by
  decide

/-- generated obligation: the blob template and the upload-start template are never registered under the same method -/
theorem C17_methods_do_not_clash :
    Generated.ociRoutes.all (fun x => Generated.ociRoutes.all (fun y =>
      !(x.2.1 == OK.blob.template && y.2.1 == OK.uploads.template && x.1 == y.1))) = true := by
  decide

/-- the templates the example registers under method `m` -/
def methodTemplates (m : Bytes) : List Bytes := (Generated.ociRoutes.filter (fun x => x.1 == m)).map (fun x => x.2.1)

/-- **Every endpoint URL resolves to its handler's route**, for every acceptable repository name and last parameter. -/
theorem C17_endpoint_resolves (env : Env) (m : Bytes) (r : Router) (L : List LiveT) (h : Live r L)
    (hsub : ∀ lt ∈ L, lt.template ∈ methodTemplates m)
    (lt : LiveT) (hlt : lt ∈ L) (k : OK) (hk : lt.template = k.template) (slash : Bool) (name last : Bytes)
    (ha : OArgs env k name last) :
    r.search env (opath k slash name last) = some ⟨k.template, some (k.exp slash).1, lt.data, ovs k name last⟩ := by
  have inTable : ∀ lt ∈ L, ∃ x ∈ Generated.ociRoutes, x.1 = m ∧ x.2.1 = lt.template := by
    intro lt hlt
    have := hsub lt hlt
    simp only [methodTemplates, List.mem_map, List.mem_filter, beq_iff_eq] at this
    obtain ⟨x, ⟨hx, hm⟩, ht⟩ := this
    exact ⟨x, hx, hm, ht⟩
  apply oci_resolves env h ?_ ?_ lt hlt k hk slash name last ha
  · intro lt hlt
    obtain ⟨x, hx, _, ht⟩ := inTable lt hlt
    have := List.all_eq_true.1 C17_table_is_family x hx
    simp only [List.any_eq_true, beq_iff_eq] at this
    obtain ⟨k, _, hk⟩ := this
    exact ⟨k, by rw [← ht, hk]⟩
  · intro lt hlt lt' hlt' h1 h2
    obtain ⟨x, hx, hxm, hxt⟩ := inTable lt hlt
    obtain ⟨y, hy, hym, hyt⟩ := inTable lt' hlt'
    have := List.all_eq_true.1 (List.all_eq_true.1 C17_methods_do_not_clash x hx) y hy
    simp only [Bool.not_eq_true', Bool.and_eq_false_iff, beq_eq_false_iff_ne] at this
    rcases this with (h | h) | h
    · exact h (by rw [hxt, h1])
    · exact h (by rw [hyt, h2])
    · exact h (by rw [hxm, hym])

/-- non-vacuity: the GET table of the example can be built through the API, and on it every blob-pull URL resolves -/
theorem C17_get_router_exists (env : Env) (d0 d1 d2 d3 : Nat) :
    ∃ r L, Live r L ∧ ∀ (slash : Bool) (name digest : Bytes), OArgs env .blob name digest →
      r.search env (opath .blob slash name digest) =
        some ⟨OK.blob.template, some (OK.blob.exp slash).1, d1, [(lN.name, name), (lD.name, digest)]⟩ :=
  oci_get_blob_pull env d0 d1 d2 d3

/-- **The name constraint accepts exactly the repository-name grammar.** The pattern in the example's source (this run's
extraction) parses, and the matcher of that pattern answers `true` on precisely the names of the grammar
name ::= component ('/' component)*, component ::= word (separator word)*, word ::= [a-z0-9]+,
separator ::= '.' | '_' | '__' | '-'+. -/
theorem C17_name_pattern_is_grammar :
    ∃ r, parseRe Generated.ociNamePattern = some r ∧ ∀ n : Bytes, r.matches n = true ↔ OciName.IsName n :=
  OciName.pattern_is_grammar

/-- the derivative matcher decides the denotation of every regular expression of the model -/
theorem C17_matcher_decides_denotation (r : Re) (s : Bytes) : r.matches s = true ↔ Re.Lang r s := Re.matches_iff r s

/-- non-vacuity and a few boundary names, evaluated by the matcher of the source's pattern: `library/ubuntu`, `a--b`,
`a__b` are names; `a___b`, `a_-b`, `A`, `a/`, the empty string are not -/
theorem C17_name_examples :
    ((parseRe Generated.ociNamePattern).map (fun r =>
      [r.matches [108, 105, 98, 114, 97, 114, 121, 47, 117, 98, 117, 110, 116, 117], r.matches [97, 45, 45, 98], r.matches [97, 95, 95, 98],
       r.matches [97, 95, 95, 95, 98], r.matches [97, 95, 45, 98], r.matches [65], r.matches [97, 47], r.matches []])) =
    some [true, true, true, false, false, false, false, false] := by decide
