import Wayfind.Proofs.Reachable
import Wayfind.Proofs.ParserEq
import Wayfind.Proofs.Registry6
import Wayfind.Proofs.ParseNonempty
import Wayfind.Proofs.Separate

/-! # C04 — a template with optional groups behaves as the set of its expansions
Router half: a successful `insert t d` acts on the tree exactly like inserting every expansion of `t`, one by one and
in order, each carrying the template text `t`, the data `d` and its own group-free text as `expanded` (a template
with a single expansion stores `expanded = none`), followed by one `optimize`. With C01–C03 (search = documented walk
over the stored routes) this is the observable equivalence of the property.
Expansion half (`C04_expansions_are_the_grammars`): the expansion texts the parser produces are exactly
`topExpansions` of `Spec/Expand.lean` — every group independently kept (recursively) or dropped, an inner group only
inside a kept outer one, kept variants first, and only a completely empty result replaced by "/" — in that order.
The property's own formulation (`C04_equivalent_to_separate_templates`, fourth session): every expansion text of an
accepted template is itself an accepted, group-free template whose single expansion is that text with the same parts
(`C04_expansion_is_group_free_template`: its text has no unescaped parenthesis and does not end in a dangling backslash
that would swallow what is appended, `Proofs/Reparse`), and a successful `insert(t, d)` of a template whose expansions have
pairwise different parts is observably the insertion, one by one, of these group-free templates with the same data: all
those inserts succeed, and every search answers identically up to the reporting convention (a match of one of them
reports the original text `t` and the expansion as `expanded`).
Status: proved for every history (when two expansions of one template have the same parts, the value stored for that
route is the one of the later expansion — of the earlier one for a catch-all — see `pick`, Proofs/Registry2). -/

theorem C04_insert_is_expansion_fold (r r' : Router) (t : Bytes) (d : Nat) (h : r.insert t d = .ok r') :
    ∃ ts, parseTemplates t = .ok ts ∧
      r'.root = Node.optimize ((ts.map (fun e => (e.2,
          (match ts with | [_] => inlineInfo t d e.1 | _ => sharedInfo t d r.next e)))).foldl
            (fun n x => Node.insert n x.1 x.2) r.root) := by
  obtain ⟨ts, hp, _, _, rfl⟩ := (Router.insert_ok_iff r r' t d).1 h
  refine ⟨ts, hp, ?_⟩
  unfold Router.insertOk
  split
  · rfl
  · rename_i hne
    simp only []
    rw [insertShared_fst]
    congr 2
    apply List.map_congr_left
    intro e _
    split
    · exact (hne _ _ rfl).elim
    · rfl

/-- every stored expansion reports the original template text and its own group-free text -/
theorem C04_expansion_info (t : Bytes) (d cell : Nat) (e : Bytes × List Part) :
    (sharedInfo t d cell e).template = t ∧ (sharedInfo t d cell e).expanded = some e.1 ∧ (sharedInfo t d cell e).data = d ∧
    (inlineInfo t d e.1).template = t ∧ (inlineInfo t d e.1).expanded = none ∧ (inlineInfo t d e.1).data = d :=
  ⟨rfl, rfl, rfl, rfl, rfl, rfl⟩

/-- **On live templates**: after a successful insert the live list gains exactly `(t, d, expansions of t)`; by C01 every
match reports `t` with the matching expansion as `expanded` (or `none` for a single expansion), by C02/C06 exactly the
paths some expansion fits are (newly) routed. -/
theorem C04_insert_adds_the_expansions (env : Env) (r r' : Router) (L : List LiveT) (h : Live r L) (t : Bytes) (d : Nat)
    (hi : r.insert t d = .ok r') (ts : List (Bytes × List Part)) (hp : parseTemplates t = .ok ts) (path : Bytes) :
    ((∃ e ∈ ts, ∃ vs, Fits env e.2 path vs) → (r'.search env path).isSome = true) ∧
    ((¬ ∃ e ∈ ts, ∃ vs, Fits env e.2 path vs) → r'.search env path = r.search env path) :=
  ⟨insert_routes env h hi ts hp path, insert_local env h hi ts hp path⟩

/-- every accepted template has at least one expansion; the fuel of the expansion model never runs out -/
theorem C04_at_least_one_expansion (t : Bytes) (ts : List (Bytes × List Part)) (hp : parseTemplates t = .ok ts) : ts ≠ [] :=
  parse_nonempty hp

/-- the expansions of an accepted template are the grammar's keep-or-drop expansions, in order -/
theorem C04_expansions_are_the_grammars (input : Bytes) (ts : List (Bytes × List Part)) (h : parseTemplates input = .ok ts) :
    topExpansions input = some (ts.map (·.1)) :=
  parse_expansions input ts h

/-- keep-or-drop, spelled out on the item tree: a group contributes every expansion of its content, or nothing -/
theorem C04_group_keep_or_drop (g rest : Items) :
    Items.exps (.cons (.grp g) rest) = (Items.exps g ++ [[]]).flatMap (fun a => (Items.exps rest).map (a ++ ·)) := by
  simp [Items.exps, Item.alts]

/-- two expansions with the same parts (`(/a)(/\a)`: texts `/a` and `/\a`): the route reports the later one -/
example : pick [Part.stat [47, 97]] [([47, 97], [Part.stat [47, 97]]), ([47, 92, 97], [Part.stat [47, 97]])] =
    some ([47, 92, 97], [Part.stat [47, 97]]) := by decide

/-- an expansion of an accepted template, read as a template of its own, is accepted and group-free: its only expansion is
its own text, with the same parts -/
theorem C04_expansion_is_group_free_template (t : Bytes) (ts : List (Bytes × List Part)) (h : parseTemplates t = .ok ts)
    (e : Bytes × List Part) (he : e ∈ ts) : parseTemplates e.1 = .ok [e] :=
  reparse_parseTemplates t ts h e he

/-- **the property as stated**: inserting `t` (with optional groups, expansions with pairwise different parts) is
observably the same as inserting, with the same data, every group-free template obtained by keeping or dropping its
groups — on any router reached through the API, for every path and constraint environment; a match reports the original
template text and the matching expansion -/
theorem C04_equivalent_to_separate_templates (env : Env) (r ra : Router) (L : List LiveT) (h : Live r L) (t : Bytes) (d : Nat)
    (ts : List (Bytes × List Part)) (hp : parseTemplates t = .ok ts) (hlen : ts.length > 1) (hd : DistinctExps ts)
    (hi : r.insert t d = .ok ra) :
    ∃ rb, insertEach d r (ts.map (·.1)) = some rb ∧
      ∀ path, ra.search env path = (rb.search env path).map (relabel t (ts.map (·.1))) :=
  insert_eq_separate env h t d ts hp hlen hd hi

/-- non-vacuity: `/v2(/)` on the empty router — the separate inserts of `/v2/` and `/v2` succeed -/
example : ∃ ra rb, ({} : Router).insert ociRoot 7 = .ok ra ∧ insertEach 7 {} (ociRootExps.map (·.1)) = some rb := by
  have h0 : Live ({} : Router) [] := ⟨[], [], rfl⟩
  obtain ⟨ra, hi, _, _⟩ := live_insert_ok h0 ociRoot 7 ociRootExps ociRoot_parse (by decide) (by intro lt h; cases h)
  obtain ⟨rb, hb, _⟩ := insert_eq_separate envT h0 ociRoot 7 ociRootExps ociRoot_parse (by decide) (by unfold DistinctExps; decide) hi
  exact ⟨ra, rb, hi, hb⟩
