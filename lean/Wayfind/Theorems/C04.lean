import Wayfind.Proofs.Reachable
import Wayfind.Proofs.Registry6
import Wayfind.Proofs.ParseNonempty

/-! # C04 — a template with optional groups behaves as the set of its expansions
Router half: a successful `insert t d` acts on the tree exactly like inserting every expansion of `t`, one by one and
in order, each carrying the template text `t`, the data `d` and its own group-free text as `expanded` (a template
with a single expansion stores `expanded = none`), followed by one `optimize`. With C01–C03 (search = documented walk
over the stored routes) this is the observable equivalence of the property.
Status: **partial** — that the model's expansions are the specification's (`Spec/Expand.lean`: independent keep/drop,
inner only if outer, only a completely empty result becomes "/") is tied by the exhaustive parser stream of the check
(oracle C04/C11 on every string up to the tier's length), not yet a Lean theorem (`expand_spec`). -/

theorem C04_insert_is_expansion_fold (r r' : Router) (t : Bytes) (d : Nat) (h : r.insert t d = .ok r') :
    ∃ ts, parseTemplates t = .ok ts ∧
      r'.root = Node.optimize ((ts.map (fun e => (e.2,
          (match ts with | [_] => inlineInfo t d e.1 | _ => sharedInfo t d r.next e)))).foldl
            (fun n x => Node.insert n x.1 x.2) r.root) := by
  obtain ⟨ts, hp, _, _, rfl⟩ := (Router.insert_ok_iff r r' t d).1 h
  refine ⟨ts, hp, ?_⟩
  unfold Router.insertOk
  split
  · rfl
  · rename_i hne
    simp only []
    rw [insertShared_fst]
    congr 2
    apply List.map_congr_left
    intro e _
    split
    · exact (hne _ _ rfl).elim
    · rfl

/-- every stored expansion reports the original template text and its own group-free text -/
theorem C04_expansion_info (t : Bytes) (d cell : Nat) (e : Bytes × List Part) :
    (sharedInfo t d cell e).template = t ∧ (sharedInfo t d cell e).expanded = some e.1 ∧ (sharedInfo t d cell e).data = d ∧
    (inlineInfo t d e.1).template = t ∧ (inlineInfo t d e.1).expanded = none ∧ (inlineInfo t d e.1).data = d :=
  ⟨rfl, rfl, rfl, rfl, rfl, rfl⟩

/-- **On live templates**: after a successful insert the live list gains exactly `(t, d, expansions of t)`; by C01 every
match reports `t` with the matching expansion as `expanded` (or `none` for a single expansion), by C02/C06 exactly the
paths some expansion fits are (newly) routed. -/
theorem C04_insert_adds_the_expansions (env : Env) (r r' : Router) (L : List LiveT) (h : Live r L) (t : Bytes) (d : Nat)
    (hi : r.insert t d = .ok r') (ts : List (Bytes × List Part)) (hp : parseTemplates t = .ok ts) (hd : DistinctExps ts) (path : Bytes) :
    ((∃ e ∈ ts, ∃ vs, Fits env e.2 path vs) → (r'.search env path).isSome = true) ∧
    ((¬ ∃ e ∈ ts, ∃ vs, Fits env e.2 path vs) → r'.search env path = r.search env path) :=
  ⟨insert_routes env h hi ts hp hd path, insert_local env h hi ts hp hd path⟩

/-- every accepted template has at least one expansion; the fuel of the expansion model never runs out -/
theorem C04_at_least_one_expansion (t : Bytes) (ts : List (Bytes × List Part)) (hp : parseTemplates t = .ok ts) : ts ≠ [] :=
  parse_nonempty hp
