import Wayfind.Proofs.Reach

/-! # C02 — no false negatives
On every reachable tree, if some stored route can be laid over the path (`Fits`, for an arbitrary constraint
environment — in particular constraints that are not prefix-closed), the search returns a match.
Status: **partial** — tree layer; see C01. -/

theorem C02_complete_tree (env : Env) (ops : List ROp) (hw : ∀ op ∈ ops, op.wf) (path : Bytes) :
    (∃ r ∈ Node.routes (ops.foldl applyROp Node.empty), ∃ vs, Fits env r.parts path vs) →
    (Node.search env (ops.foldl applyROp Node.empty) path []).isSome = true :=
  (reachable_search env ops hw path).2.2

/-- `None` only when nothing fits -/
theorem C02_none_only_if_nothing_fits (env : Env) (ops : List ROp) (hw : ∀ op ∈ ops, op.wf) (path : Bytes)
    (h : Node.search env (ops.foldl applyROp Node.empty) path [] = none) :
    ¬ ∃ r ∈ Node.routes (ops.foldl applyROp Node.empty), ∃ vs, Fits env r.parts path vs := by
  intro hex
  have := C02_complete_tree env ops hw path hex
  rw [h] at this
  exact absurd this (by simp)
