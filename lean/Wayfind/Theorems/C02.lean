import Wayfind.Proofs.Reachable
import Wayfind.Proofs.Registry5

/-! # C02 — no false negatives
On every router reachable through the API, if some stored route can be laid over the path (`Fits`, for an arbitrary
constraint environment — in particular constraints that are not prefix-closed), `search` returns a match; `None` only
when nothing fits.
Status: proved on stored routes and on live templates, for every history. -/

theorem C02_complete (env : Env) (r : Router) (h : Reachable r) (path : Bytes)
    (hfit : ∃ rt ∈ Node.routes r.root, ∃ vs, Fits env rt.parts path vs) :
    (r.search env path).isSome = true := by
  rw [Router.search_eq_walk env r h path]
  have := refWalk_complete env path.length (Node.routes r.root) path [] (Nat.le_refl _) hfit
  cases hw : refWalk env path.length (Node.routes r.root) path [] with
  | none => rw [hw] at this; cases this
  | some x => simp

theorem C02_none_only_if_nothing_fits (env : Env) (r : Router) (h : Reachable r) (path : Bytes)
    (hnone : r.search env path = none) :
    ¬ ∃ rt ∈ Node.routes r.root, ∃ vs, Fits env rt.parts path vs := by
  intro hex
  have := C02_complete env r h path hex
  rw [hnone] at this
  cases this

/-- **On live templates**: if an expansion of a live template fits the path, `search` returns a match -/
theorem C02_live_template_is_routed (env : Env) (r : Router) (L : List LiveT) (h : Live r L) (path : Bytes)
    (hfit : ∃ lt ∈ L, ∃ e ∈ lt.exps, ∃ vs, Fits env e.2 path vs) : (r.search env path).isSome = true :=
  search_complete env h path hfit
