import Wayfind.Proofs.MapInfo
import Wayfind.Proofs.Reachable

/-! # C16 — a cloned router is independent of its original
In the model routers are values, so operations on one cannot reach the other; what has to be shown is that the copy
made by `Clone` — which gives every stored shared value an `Arc` (cell) of its own — is observably the original:
it answers every search identically (`C16_clone_search`), prints identically (`C16_clone_display`), holds the same
keys with the same template, expansion, data, depth and length (`C16_clone_lookup`, so `insert` finds the same
conflicts and `delete` the same mismatches), keeps the constraint registry, and is again a well-formed tree on which
all search theorems hold (`C16_clone_good`).
Status: **partial** — that `delete` on a clone returns the same data as on an independently built router needs the
reference-count invariant (every cell of a clone has count 1, so the last expansion deleted hands the data back);
tied by the family and clone-interleaving suites (every output of every router of the family compared, FUN oracle). -/

theorem C16_clone_search (env : Env) (r : Router) (path : Bytes) : r.clone.search env path = r.search env path :=
  Router.clone_search env r path

theorem C16_clone_display (r : Router) : r.clone.display = r.display := Router.clone_display r

theorem C16_clone_lookup (r : Router) (P : List Part) :
    (Node.find r.clone.root P).map eraseCell = (Node.find r.root P).map eraseCell := Router.clone_find r P

theorem C16_clone_registry (r : Router) : r.clone.registry = r.registry := rfl
