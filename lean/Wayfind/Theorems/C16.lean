import Wayfind.Proofs.MapInfo
import Wayfind.Proofs.Reachable
import Wayfind.Proofs.Family
import Wayfind.Proofs.Oci6

/-! # C16 — a cloned router is independent of its original
In the model routers are values, so operations on one cannot reach the other; `Clone` (repaired: every stored shared
value gets an `Arc` — a cell — of its own, `Node.recell`, and the copy starts a count table of its own) is a *step of
every history*: `Call.clone` continues on the copy, so `Reachable` and `Live` — and with them every theorem of C01–C15
about reachable routers — cover clones, clones of clones, and everything done to them afterwards.

What is shown here:
* the copy is observably the original at the moment of cloning: it answers every search identically
  (`C16_clone_search`), prints identically (`C16_clone_display`), holds the same keys with the same template,
  expansion, data, depth and length (`C16_clone_lookup`), keeps the registry;
* the copy is again a reachable router holding the same live templates (`C16_clone_live`), so `delete` on it returns
  the inserted data (`C16_delete_on_clone_returns_data`: the reference-count invariant `RcInv` is generalised from "all
  routes of a template share one cell whose count is their number" to "every cell's count is the number of the
  template's routes holding it", which `recell` establishes with count one — different keys get different cells,
  `recell_cell_inj`);
* **`Clone` is unobservable** (`C16_clone_unobservable`): for every history with `clone` steps anywhere in it, every
  call returns exactly what it returns in the same history with the `clone` steps removed — `Ok`/error payloads of
  `constraint`, `insert`, `delete` including the data handed back — and the final routers answer every search
  identically and print the same tree; more generally what a call returns depends only on the set of live
  (template, data) pairs and the registry (`C16_same_templates_same_outcome`), which is "behaves exactly as a router
  built independently with the same templates".
"No effect on the other router" is the value semantics of the model; what ties it to the crate is that a clone shares
no `Arc<T>` with its original (the repaired `Clone for NodeData`), checked by the family / clonescope suites, which
interleave operations on all members of a clone family and compare every output of every member. -/

theorem C16_clone_search (env : Env) (r : Router) (path : Bytes) : r.clone.search env path = r.search env path :=
  Router.clone_search env r path

theorem C16_clone_display (r : Router) : r.clone.display = r.display := Router.clone_display r

theorem C16_clone_lookup (r : Router) (P : List Part) :
    (Node.find r.clone.root P).map eraseCell = (Node.find r.root P).map eraseCell := Router.clone_find r P

theorem C16_clone_registry (r : Router) : r.clone.registry = r.registry := rfl

/-- a clone of a router reached through the API (clones included) is again such a router, with the same live templates -/
theorem C16_clone_live (r : Router) (L : List LiveT) (h : Live r L) : Live r.clone L :=
  h.step .clone

/-- the tree of a clone is canonical: well-shaped, sorted, maximally compressed, flags sound -/
theorem C16_clone_good (r : Router) (h : Reachable r) : Good3 r.clone.root ∧ Canon r.clone.root := by
  have hr : Reachable r.clone := by
    obtain ⟨b, calls, rfl⟩ := h
    exact ⟨b, calls ++ [.clone], by simp [List.foldl_append, Router.step]⟩
  exact ⟨reachable_good3 _ hr, reachable_canon _ hr⟩

/-- `delete` of a live template on a clone hands back the data given at insertion, and leaves exactly the others -/
theorem C16_delete_on_clone_returns_data (r : Router) (L : List LiveT) (h : Live r L) (lt : LiveT) (hlt : lt ∈ L) :
    (r.clone.delete lt.template).1 = .ok lt.data ∧
    Live (r.clone.delete lt.template).2 (L.filter (fun x => x.template != lt.template)) :=
  delete_live_api (h.step .clone) lt hlt

/-- what a call returns depends only on the live (template, data) pairs and the registry — however the two routers
were reached (clones, other insertion orders, templates inserted and deleted on the way) -/
theorem C16_same_templates_same_outcome (r1 r2 : Router) (L1 L2 : List LiveT) (h1 : Live r1 L1) (h2 : Live r2 L2)
    (h : SameTD L1 L2) (hreg : r1.registry = r2.registry) (c : Call) : r1.outcome c = r2.outcome c :=
  outcome_same h1 h2 h hreg c

/-- **`Clone` is unobservable**: outcomes of all calls, final search results and final drawing of a history with `clone`
steps equal those of the history without them -/
theorem C16_clone_unobservable (env : Env) (builtins : List (Bytes × Bytes)) (calls : List Call) :
    (runOut { registry := builtins } calls).filter (fun o => !o.isCloned) =
      runOut { registry := builtins } (calls.filter notClone) ∧
    (∀ path, (calls.foldl Router.step { registry := builtins }).search env path =
      ((calls.filter notClone).foldl Router.step { registry := builtins }).search env path) ∧
    (calls.foldl Router.step { registry := builtins }).display =
      ((calls.filter notClone).foldl Router.step { registry := builtins }).display :=
  clone_unobservable env builtins calls

/-- non-vacuity: the grouped template `/v2(/)` (two routes sharing one `Arc`), inserted with data 7 and cloned:
`delete` on the clone and on the original both hand the data back -/
example : ∃ r, ({} : Router).insert ociRoot 7 = .ok r ∧ (r.clone.delete ociRoot).1 = .ok 7 ∧ (r.delete ociRoot).1 = .ok 7 := by
  have h0 : Live ({} : Router) [] := ⟨[], [], rfl⟩
  obtain ⟨r, hi, hl, _⟩ := live_insert_ok h0 ociRoot 7 ociRootExps ociRoot_parse (by decide) (by intro lt h; cases h)
  exact ⟨r, hi, (C16_delete_on_clone_returns_data r _ hl ⟨ociRoot, 7, ociRootExps⟩ (by simp)).1,
    (delete_live_api hl ⟨ociRoot, 7, ociRootExps⟩ (by simp)).1⟩
