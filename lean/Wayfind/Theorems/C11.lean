import Wayfind.Proofs.ParseWf
import Wayfind.Proofs.ParserEq
import Wayfind.Spec.Grammar
import Wayfind.Generated.Facts

/-! # C11 — the parser accepts exactly the documented language, decoded faithfully
`Spec/Expand.lean` and `Spec/Grammar.lean` state the language independently of the code's cursor arithmetic: a
template is a sequence of escapes, literal bytes and groups delimited by matching parentheses (non-empty, escapes
honoured); every expansion must start with `/`; outside braces a backslash makes the next byte literal (a trailing
backslash is itself literal) and every other byte is copied verbatim; `{…}` up to the first `}` must be `name`,
`*name`, `name:constraint` or `*name:constraint` with non-empty parts free of `: * { } ( ) /`; two parameters may not
touch and no name may repeat.
**Proved** (`C11_parser_is_the_grammar`): the model of `ParsedTemplate::new` — a transcription of the Rust cursor /
group / depth bookkeeping, with its nested re-scan of group contents, brace counting and `seen_parameters` positions —
accepts exactly the templates of that grammar and produces exactly its expansions and parts, in the same order; it
reports an error exactly when the grammar rejects. The proof also shows that the fuel of both recursive definitions
suffices. The model ↔ code tie is the exhaustive comparison of every string up to the tier's length (accept/reject,
expansions, every part) in every run. -/

theorem C11_accepted_templates_decode_to_wellformed_parts (input : Bytes) (ts : List (Bytes × List Part))
    (h : parseTemplates input = .ok ts) : ∀ t ∈ ts, wfParts t.2 = true :=
  parse_wf h

/-- the empty string is rejected; a template is parsed expansion by expansion -/
theorem C11_empty_rejected : parseTemplates [] = .error .empty := rfl

/-- non-vacuity (`/a\\{b(/{x})`): the escape is decoded, the group expands, kept variant first -/
example : specParse [47, 97, 92, 123, 98, 40, 47, 123, 120, 125, 41] =
    some [([47, 97, 92, 123, 98, 47, 123, 120, 125], [.stat [47, 97, 123, 98, 47], .par .dyn { name := [120] }]),
          ([47, 97, 92, 123, 98], [.stat [47, 97, 123, 98]])] := by decide

/-- generated obligation: the code's `INVALID_PARAM_CHARS` is `: * { } ( ) /`, the table of the model and of the grammar -/
theorem C11_invalid_name_characters :
    Generated.invalidParamChars = [58, 42, 123, 125, 40, 41, 47] ∧ invalidChars = Generated.invalidParamChars ∧
    invalidNameChars = Generated.invalidParamChars := by decide

/-- **The parser is the grammar.** -/
theorem C11_parser_is_the_grammar (input : Bytes) (ts : List (Bytes × List Part)) :
    parseTemplates input = .ok ts ↔ specParse input = some ts :=
  parseTemplates_eq_specParse input ts

theorem C11_accepts_iff (input : Bytes) : (∃ ts, parseTemplates input = .ok ts) ↔ Accepts input = true := by
  unfold Accepts
  constructor
  · rintro ⟨ts, h⟩; rw [(parseTemplates_eq_specParse input ts).1 h]; rfl
  · intro h
    cases hs : specParse input with
    | none => rw [hs] at h; cases h
    | some ts => exact ⟨ts, (parseTemplates_eq_specParse input ts).2 hs⟩

theorem C11_rejects_iff (input : Bytes) : (∃ e, parseTemplates input = .error e) ↔ specParse input = none :=
  parseTemplates_error_iff input

/-- decoding, in the property's words: a backslash makes the following byte literal, a trailing backslash is itself
literal, a brace ends the literal run, every other byte is copied verbatim -/
theorem C11_literal_decoding (b c : Byte) (rest : Bytes) :
    litRun (92 :: c :: rest) = (c :: (litRun rest).1, (litRun rest).2) ∧ litRun [92] = ([92], []) ∧
    litRun (123 :: rest) = ([], 123 :: rest) ∧ litRun (125 :: rest) = ([], 125 :: rest) ∧
    (b ≠ 92 → b ≠ 123 → b ≠ 125 → litRun (b :: rest) = (b :: (litRun rest).1, (litRun rest).2)) := by
  refine ⟨by simp [litRun], by simp [litRun], by simp [litRun], by simp [litRun], ?_⟩
  intro h1 h2 h3
  rw [litRun.eq_def]
  split
  · rename_i heq; cases heq
  · rename_i heq; injection heq with e1 e2; exact absurd e1 h1
  · rename_i heq; injection heq with e1 e2; subst e1 e2; simp [h2, h3]
