import Wayfind.Proofs.ParseWf
import Wayfind.Spec.Grammar
import Wayfind.Generated.Facts

/-! # C11 — the parser accepts exactly the documented language, decoded faithfully
`Spec/Grammar.lean` states the language (`Accepts`) and the decoding (`specParse`) independently of the code's cursor
arithmetic. Proved here: every accepted template is decoded into well-formed part lists — literal parts non-empty,
literal text and parameters strictly alternating (no two touching parameters survive, adjacent literal text is one
part) — which is exactly the precondition of every tree theorem (C01–C10), so the chain *template string → parser →
tree → search* is closed.
Status: **partial** — `parseTemplates input = .ok ts ↔ specParse input = some ts` (acceptance and decoding equal the
grammar's) is tied exhaustively by the check on every string up to the tier's length over the syntax alphabet, in
both directions and on every part; it is not yet a Lean theorem. -/

theorem C11_accepted_templates_decode_to_wellformed_parts (input : Bytes) (ts : List (Bytes × List Part))
    (h : parseTemplates input = .ok ts) : ∀ t ∈ ts, wfParts t.2 = true :=
  parse_wf h

/-- the empty string is rejected; a template is parsed expansion by expansion -/
theorem C11_empty_rejected : parseTemplates [] = .error .empty := rfl

/-- non-vacuity (`/a\\{b(/{x})`): the escape is decoded, the group expands, kept variant first -/
example : specParse [47, 97, 92, 123, 98, 40, 47, 123, 120, 125, 41] =
    some [([47, 97, 92, 123, 98, 47, 123, 120, 125], [.stat [47, 97, 123, 98, 47], .par .dyn { name := [120] }]),
          ([47, 97, 92, 123, 98], [.stat [47, 97, 123, 98]])] := by decide

/-- generated obligation: the code's `INVALID_PARAM_CHARS` is `: * { } ( ) /`, the table of the model and of the grammar -/
theorem C11_invalid_name_characters :
    Generated.invalidParamChars = [58, 42, 123, 125, 40, 41, 47] ∧ invalidChars = Generated.invalidParamChars ∧
    invalidNameChars = Generated.invalidParamChars := by decide
