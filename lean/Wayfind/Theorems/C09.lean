import Wayfind.Proofs.FindDelete
import Wayfind.Proofs.Registry10

/-! # C09 — delete removes exactly the named route
Deleting a key from the tree (with pruning of empty nodes and merging of compressible ones) removes exactly that key
from the finite map and returns what `find` finds for it.
Status: proved on live templates for every history, including the returned data through the reference counts of
shared values (one reference per *different* route of the template: an expansion whose route is present already drops
one, `insertShared_drops`; deleting skips expansions whose route is gone already, `deleteAll_shared`); clones are
tied by the `family` and `clonescope` suites (C16). -/

theorem C09_find_after_delete (n : Node) (mark : Bool) (P Q : List Part) (hS : Node.Shp n)
    (hP : wfParts P = true) (hQ : wfParts Q = true) :
    Node.find (Node.delete mark n P).1 Q = (if Q = P then none else Node.find n Q) ∧
    (Node.delete mark n P).2 = Node.find n P :=
  Node.find_delete n mark P Q hS hP hQ

/-- **On live templates.** `delete(t)` of a template that is, character for character, live returns the data given at
insertion and leaves exactly the other live templates … -/
theorem C09_delete_live_template (r : Router) (L : List LiveT) (h : Live r L) (lt : LiveT) (hlt : lt ∈ L) :
    (r.delete lt.template).1 = .ok lt.data ∧
    Live (r.delete lt.template).2 (L.filter (fun x => x.template != lt.template)) :=
  delete_live_api h lt hlt

/-- … and if `t` is not live the call changes nothing and reports a template error, a mismatch naming a live template
one of whose routes coincides with an expansion of `t`, or not-found when no expansion of `t` is a live route. -/
theorem C09_delete_not_live (r : Router) (L : List LiveT) (h : Live r L) (t : Bytes) (hnl : ∀ lt ∈ L, lt.template ≠ t) :
    (r.delete t).2 = r ∧
    ((∃ e, (r.delete t).1 = .error (.template e) ∧ parseTemplates t = .error e) ∨
     (∃ ins ts, (r.delete t).1 = .error (.mismatch t ins) ∧ parseTemplates t = .ok ts ∧
        ∃ lt ∈ L, lt.template = ins ∧ ∃ e ∈ lt.exps, ∃ e' ∈ ts, e.2 = e'.2) ∨
     (∃ ts, (r.delete t).1 = .error (.notFound t) ∧ parseTemplates t = .ok ts ∧
        ∀ lt ∈ L, ∀ e ∈ lt.exps, ∀ e' ∈ ts, e.2 ≠ e'.2)) :=
  delete_not_live h t hnl
