import Wayfind.Proofs.FindDelete

/-! # C09 — delete removes exactly the named route
Deleting a key from the tree (with pruning of empty nodes and merging of compressible ones) removes exactly that key
from the finite map and returns what `find` finds for it.
Status: **partial** — tree layer; the Router-level outcome rules (ok / mismatch / not-found, returned data through the
reference counts) need the registry invariant. -/

theorem C09_find_after_delete (n : Node) (mark : Bool) (P Q : List Part) (hS : Node.Shp n)
    (hP : wfParts P = true) (hQ : wfParts Q = true) :
    Node.find (Node.delete mark n P).1 Q = (if Q = P then none else Node.find n Q) ∧
    (Node.delete mark n P).2 = Node.find n P :=
  Node.find_delete n mark P Q hS hP hQ
