import Wayfind.Model.Router
import Wayfind.Spec.FitsExec
import Wayfind.Spec.Greedy
import Wayfind.Driver.Codec
import Wayfind.Driver.Judge

/-! `wfmodel` — line-protocol driver.

  wfmodel replay <ops>                 model output, one line per operation
  wfmodel judge  <ops> <impl.out>      correspondence (D lines), oracles on the implementation (O lines),
                                        coverage counters (S lines)
-/

def main (args : List String) : IO UInt32 := do
  match args with
  | ["replay", ops] => Driver.replay ops; return 0
  | ["judge", ops, impl] => Driver.judge ops impl; return 0
  | _ => IO.eprintln "usage: wfmodel replay <ops> | judge <ops> <impl.out>"; return 2
