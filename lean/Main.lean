import Wayfind.Model.Display
import Wayfind.Model.Parser

/-! line-protocol driver (prototype): insert of pre-parsed part lists, optimize, search -/

def hexVal (c : Char) : Option Nat :=
  if '0' ≤ c ∧ c ≤ '9' then some (c.toNat - '0'.toNat)
  else if 'a' ≤ c ∧ c ≤ 'f' then some (c.toNat - 'a'.toNat + 10) else none

def unhex : List Char → Option Bytes
  | [] => some []
  | a :: b :: rest => do
    let x ← hexVal a; let y ← hexVal b; let t ← unhex rest
    pure (UInt8.ofNat (x * 16 + y) :: t)
  | _ => none

def hexDigit (n : Nat) : Char := if n < 10 then Char.ofNat (48 + n) else Char.ofNat (87 + n)
def hex (b : Bytes) : String := String.ofList (b.flatMap (fun x => [hexDigit (x.toNat / 16), hexDigit (x.toNat % 16)]))

/-- UTF-8 validity as `core::str::from_utf8` decides it -/
def utf8Valid : Bytes → Bool
  | [] => true
  | b :: rest =>
    if b < 0x80 then utf8Valid rest
    else if b < 0xC2 then false
    else if b < 0xE0 then
      match rest with
      | c :: r => (0x80 ≤ c && c ≤ 0xBF) && utf8Valid r
      | _ => false
    else if b < 0xF0 then
      match rest with
      | c :: d :: r =>
        let lo : UInt8 := if b == 0xE0 then 0xA0 else 0x80
        let hi : UInt8 := if b == 0xED then 0x9F else 0xBF
        (lo ≤ c && c ≤ hi) && (0x80 ≤ d && d ≤ 0xBF) && utf8Valid r
      | _ => false
    else if b < 0xF5 then
      match rest with
      | c :: d :: e :: r =>
        let lo : UInt8 := if b == 0xF0 then 0x90 else 0x80
        let hi : UInt8 := if b == 0xF4 then 0x8F else 0xBF
        (lo ≤ c && c ≤ hi) && (0x80 ≤ d && d ≤ 0xBF) && (0x80 ≤ e && e ≤ 0xBF) && utf8Valid r
      | _ => false
    else false
termination_by l => l.length

/-- the two test constraints of the prototype harness: "even" (even length) and "nota" (anything but "a") -/
def chkProto (name v : Bytes) : Bool :=
  if name == "even".toUTF8.toList then v.length % 2 == 0
  else if name == "nota".toUTF8.toList then v != [97]
  else false

def envProto : Env := ⟨chkProto, utf8Valid⟩

def parsePart (tok : String) : Option Part :=
  match tok.toList with
  | 'S' :: h => (unhex h).map Part.stat
  | 'P' :: k :: rest =>
    let s := String.ofList rest
    match s.splitOn ":" with
    | [n, c] => do
      let nb ← unhex n.toList; let cb ← unhex c.toList
      let kind ← (match k with | 'd' => some PKind.dyn | 'D' => some PKind.dynC | 'w' => some PKind.wild | 'W' => some PKind.wildC | _ => none)
      pure (Part.par kind {name := nb, cons := cb})
    | _ => none
  | _ => none

def showPart : Part → String
  | .stat p => "S" ++ hex p
  | .par k l => "P" ++ (match k with | .dyn => "d" | .dynC => "D" | .wild => "w" | .wildC => "W") ++ hex l.name ++ ":" ++ hex l.cons

def showErr : TErr → String
  | .empty => "Empty"
  | .missingLeadingSlash t => s!"MissingLeadingSlash {hex t}"
  | .emptyBraces t p => s!"EmptyBraces {hex t} {p}"
  | .unbalancedBrace t p => s!"UnbalancedBrace {hex t} {p}"
  | .emptyParentheses t p => s!"EmptyParentheses {hex t} {p}"
  | .unbalancedParenthesis t p => s!"UnbalancedParenthesis {hex t} {p}"
  | .emptyParameter t a b => s!"EmptyParameter {hex t} {a} {b}"
  | .invalidParameter t n a b => s!"InvalidParameter {hex t} {hex n} {a} {b}"
  | .duplicateParameter t n a b c d => s!"DuplicateParameter {hex t} {hex n} {a} {b} {c} {d}"
  | .emptyWildcard t a b => s!"EmptyWildcard {hex t} {a} {b}"
  | .emptyConstraint t a b => s!"EmptyConstraint {hex t} {a} {b}"
  | .invalidConstraint t n a b => s!"InvalidConstraint {hex t} {hex n} {a} {b}"
  | .touchingParameters t a b => s!"TouchingParameters {hex t} {a} {b}"

def showParsed (input : Bytes) : String :=
  match parseTemplates input with
  | .error e => "err " ++ showErr e
  | .ok ts => "ok " ++ ";".intercalate (ts.map (fun (raw, ps) => hex raw ++ "|" ++ ",".intercalate (ps.map showPart)))

def step (root : Node) (line : String) : Node × Option String :=
  match line.trimAscii.toString.splitOn " " with
  | "I" :: id :: depth :: len :: parts =>
    match id.toNat?, depth.toNat?, len.toNat?, parts.mapM parsePart with
    | some i, some d, some l, some ps => (Node.insert root ps ⟨i, d, l⟩, none)
    | _, _, _, _ => (root, some "bad-op")
  | ["O"] => (Node.optimize root, none)
  | "D" :: parts =>
    match parts.mapM parsePart with
    | some ps => ((Node.delete false root ps).1, none)
    | none => (root, some "bad-op")
  | ["T"] => (root, some (hex (Node.display root).toUTF8.toList))
  | ["Q", p] =>
    match (if p == "-" then some [] else unhex p.toList) with
    | some path =>
      match Node.search envProto root path [] with
      | none => (root, some "none")
      | some (i, ps) => (root, some (s!"{i.tpl}" ++ String.join (ps.map (fun (a, b) => " " ++ hex a ++ "=" ++ hex b))))
    | none => (root, some "bad-op")
  | ["N"] => (Node.empty, none)
  | ["P", t] =>
    match (if t == "-" then some [] else unhex t.toList) with
    | some input => (root, some (showParsed input))
    | none => (root, some "bad-op")
  | _ => (root, some "bad-op")

partial def loop (h : IO.FS.Stream) (out : IO.FS.Stream) (root : Node) : IO Unit := do
  let line ← h.getLine
  if line.isEmpty then return ()
  let (root', o) := step root line
  match o with
  | some s => out.putStrLn s
  | none => pure ()
  loop h out root'

def main : IO Unit := do loop (← IO.getStdin) (← IO.getStdout) Node.empty
