//! Locates the OCI example's name constraint in /repo (feature `ocisrc`): the source file under examples/oci/src that
//! implements `Constraint` on top of a `Regex` — wherever a reorganisation of the example has put it — and copies it to
//! OUT_DIR/oci_name.rs, which `palette.rs` includes as a module.
use std::{env, fs, path::Path};

fn walk(dir: &Path, out: &mut Vec<std::path::PathBuf>) {
    if let Ok(rd) = fs::read_dir(dir) {
        let mut es: Vec<_> = rd.flatten().map(|e| e.path()).collect();
        es.sort();
        for p in es {
            if p.is_dir() {
                walk(&p, out);
            } else if p.extension().map_or(false, |x| x == "rs") {
                out.push(p);
            }
        }
    }
}

fn main() {
    println!("cargo:rerun-if-changed=/repo/examples/oci/src");
    let out = Path::new(&env::var("OUT_DIR").unwrap()).join("oci_name.rs");
    let mut files = vec![];
    walk(Path::new("/repo/examples/oci/src"), &mut files);
    let preferred = Path::new("/repo/examples/oci/src/constraints/name.rs");
    files.sort_by_key(|p| p != preferred);
    for f in files {
        let text = fs::read_to_string(&f).unwrap_or_default();
        if text.contains("impl Constraint for") && text.contains("Regex::new(") {
            // inner doc comments / attributes cannot be included into a module body
            let body: String = text.lines().filter(|l| !l.trim_start().starts_with("//!") && !l.trim_start().starts_with("#![")).collect::<Vec<_>>().join("\n");
            fs::write(&out, body).unwrap();
            return;
        }
    }
    fs::write(&out, "compile_error!(\"the OCI example's name constraint was not found under /repo/examples/oci/src\");").unwrap();
}
