//! Generators: every suite writes an abstract operation file. All randomness comes from one `Rng`.
use crate::rng::Rng;
use crate::run::hex;
use std::fmt::Write as _;
use wayfind::Router;

pub struct Out {
    pub lines: Vec<String>,
    /// deterministic enumerations are partitioned: this process writes the units with index % nchunks == chunk
    pub chunk: usize,
    pub nchunks: usize,
    pub counter: usize,
}

impl Out {
    /// is the next unit of a deterministic enumeration ours?
    pub fn mine(&mut self) -> bool {
        let m = self.counter % self.nchunks == self.chunk;
        self.counter += 1;
        m
    }
    pub fn op(&mut self, s: String) {
        self.lines.push(s);
    }
    pub fn reset(&mut self) {
        self.op("reset".to_owned());
    }
    pub fn new_router(&mut self, r: usize, keys: &[&str]) {
        self.op(format!("new {r}"));
        for k in keys {
            self.op(format!("constraint {r} {k}"));
        }
    }
    pub fn insert(&mut self, r: usize, t: &str, d: u32) {
        self.op(format!("insert {r} {} {d}", hex(t.as_bytes())));
    }
    pub fn delete(&mut self, r: usize, t: &str) {
        self.op(format!("delete {r} {}", hex(t.as_bytes())));
    }
    pub fn search(&mut self, r: usize, p: &str) {
        self.op(format!("search {r} {}", hex(p.as_bytes())));
    }
    /// the printed tree, and the byte-exact structural dump of the same tree (verif hook)
    pub fn display(&mut self, r: usize) {
        self.op(format!("display {r}"));
        self.op(format!("dump {r}"));
    }
}

pub const KEYS: &[&str] = &["alpha", "nota", "even", "hasslash"];

fn shadow() -> Router<u32> {
    let mut r = Router::new();
    for k in KEYS {
        let _ = crate::palette::register(&mut r, k);
    }
    r
}

/// expansions (as part lists) of a template, through the hook when available
#[cfg(feature = "hook")]
pub fn parts_of(t: &str) -> Vec<Vec<(char, Vec<u8>)>> {
    match wayfind::verif::parse_dump(t.as_bytes()) {
        Ok(es) => es.into_iter().map(|(_, ps)| ps.into_iter().map(|(k, a, _)| (k, a)).collect()).collect(),
        Err(_) => vec![],
    }
}
#[cfg(not(feature = "hook"))]
pub fn parts_of(_t: &str) -> Vec<Vec<(char, Vec<u8>)>> {
    vec![]
}

const LITS: &[&str] = &["/", "a", "ab", "abc", "b", ".", "-", "é", "ée", "日", "è", "早", "文", "/x", "x.y", "\\{", "\\}", "\\(", "\\)", "\\\\", "/a/", "//", "m", "/m/", "/a", "/b", "a ", " ", "\t"];
const NAMES: &[&str] = &["a", "b", "id", "id2", "w", "v", "a-b", "template", "inserted", "conflicts", "constraint"];
const CONS: &[&str] = &["alpha", "nota", "even", "u8", "hasslash", "bool"];

/// structured, mostly valid template from tiny colliding pools
pub fn template(rng: &mut Rng, junk: bool) -> String {
    let mut s = String::from("/");
    let n = 1 + rng.below(6);
    let mut depth = 0;
    let mut last_param = false;
    for _ in 0..n {
        let k = rng.below(13);
        match k {
            0..=3 => {
                s.push_str(rng.lit(LITS));
                last_param = false;
            }
            4..=7 if !last_param || junk => {
                s.push('{');
                if k >= 6 {
                    s.push('*');
                }
                s.push_str(rng.lit(NAMES));
                if rng.chance(1, 3) {
                    s.push(':');
                    if rng.chance(1, 25) {
                        s.push_str("zz");
                    } else {
                        s.push_str(rng.lit(CONS));
                    }
                }
                s.push('}');
                last_param = true;
            }
            8 | 9 => {
                s.push('(');
                depth += 1;
                // a group should not start with a parameter right after a parameter
                if last_param {
                    s.push_str(rng.lit(&["/", ".", "-", "/a"]));
                    last_param = false;
                }
            }
            10 => {
                if depth > 0 && !s.ends_with('(') {
                    s.push(')');
                    depth -= 1;
                }
            }
            11 if junk => {
                s.push_str(rng.lit(&["{", "}", "(", ")", "\\", ":", "*", "{}", "()", "{:}", "{*}", "{a:}", "{/}", "{a}{b}"]));
            }
            _ => {
                s.push_str(rng.lit(LITS));
                last_param = false;
            }
        }
    }
    for _ in 0..depth {
        if s.ends_with('(') {
            s.push('/');
        }
        s.push(')');
    }
    // a group around an arbitrary stretch of the text — also inside braces, across a parameter boundary, inside a name
    if rng.chance(1, 8) {
        let cuts: Vec<usize> = (1..=s.len()).filter(|i| s.is_char_boundary(*i)).collect();
        if cuts.len() >= 2 {
            let a = *rng.pick(&cuts);
            let b = *rng.pick(&cuts);
            let (a, b) = (a.min(b), a.max(b));
            if a < b {
                s.insert(b, ')');
                s.insert(a, '(');
            }
        }
    }
    // white space and control bytes are ordinary literal text
    if rng.chance(1, 12) {
        s.push_str(rng.lit(&[" ", "\t", "\u{a0}", " \n", "%20", "\u{7f}", "  "]));
    }
    s
}

#[derive(Clone, PartialEq)]
enum Tok {
    Lit(String),
    Par { wild: bool, name: String, cons: Option<String> },
    Open,
    Close,
}

fn tokenize(t: &str) -> Option<Vec<Tok>> {
    let cs: Vec<char> = t.chars().collect();
    let mut out = vec![];
    let mut i = 0;
    while i < cs.len() {
        match cs[i] {
            '\\' => {
                if i + 1 < cs.len() {
                    out.push(Tok::Lit(format!("\\{}", cs[i + 1])));
                    i += 2;
                } else {
                    out.push(Tok::Lit("\\".to_owned()));
                    i += 1;
                }
            }
            '(' => { out.push(Tok::Open); i += 1; }
            ')' => { out.push(Tok::Close); i += 1; }
            '{' => {
                let j = (i + 1..cs.len()).find(|j| cs[*j] == '}')?;
                let inner: String = cs[i + 1..j].iter().collect();
                if inner.contains('{') || inner.contains('(') || inner.contains(')') {
                    return None;
                }
                let (wild, rest) = match inner.strip_prefix('*') { Some(r) => (true, r.to_owned()), None => (false, inner.clone()) };
                let (name, cons) = match rest.split_once(':') { Some((n, c)) => (n.to_owned(), Some(c.to_owned())), None => (rest, None) };
                out.push(Tok::Par { wild, name, cons });
                i = j + 1;
            }
            '}' => return None,
            c => { out.push(Tok::Lit(c.to_string())); i += 1; }
        }
    }
    Some(out)
}

fn render(ts: &[Tok]) -> String {
    let mut s = String::new();
    for t in ts {
        match t {
            Tok::Lit(l) => s.push_str(l),
            Tok::Open => s.push('('),
            Tok::Close => s.push(')'),
            Tok::Par { wild, name, cons } => {
                s.push('{');
                if *wild { s.push('*'); }
                s.push_str(name);
                if let Some(c) = cons { s.push(':'); s.push_str(c); }
                s.push('}');
            }
        }
    }
    s
}

/// the closing parenthesis that matches the opening one at `i`
fn matching(ts: &[Tok], i: usize) -> Option<usize> {
    let mut d = 0i32;
    for (k, t) in ts.iter().enumerate().skip(i) {
        match t { Tok::Open => d += 1, Tok::Close => { d -= 1; if d == 0 { return Some(k); } } _ => {} }
    }
    None
}

/// One-atom mutation of a template: a *relative* that differs from it in exactly one feature — a parameter renamed, its
/// constraint added/changed/dropped, its kind toggled; a literal character replaced by a confusable one (same lead byte
/// for multi-byte characters), inserted or deleted; a group duplicated `(g)(g)`, wrapped twice `((g))`, or put around a
/// stretch; an ordinary character re-spelled with a redundant backslash. Relatives are what shares tree nodes, collides,
/// shadows and ties in rank; independent random templates rarely do.
pub fn mutate(rng: &mut Rng, t: &str) -> String {
    let Some(mut ts) = tokenize(t) else { return format!("{t}{}", rng.lit(LITS)) };
    if ts.is_empty() {
        return "/".to_owned();
    }
    let pars: Vec<usize> = (0..ts.len()).filter(|i| matches!(ts[*i], Tok::Par { .. })).collect();
    let lits: Vec<usize> = (1..ts.len()).filter(|i| matches!(ts[*i], Tok::Lit(_))).collect();
    let opens: Vec<usize> = (0..ts.len()).filter(|i| ts[*i] == Tok::Open).collect();
    for _attempt in 0..6 {
        match rng.below(12) {
            0 | 1 if !pars.is_empty() => {
                let i = *rng.pick(&pars);
                if let Tok::Par { name, .. } = &mut ts[i] { *name = rng.lit(NAMES).to_string(); }
            }
            2 | 3 if !pars.is_empty() => {
                let i = *rng.pick(&pars);
                if let Tok::Par { cons, .. } = &mut ts[i] {
                    *cons = if cons.is_some() && rng.chance(1, 2) { None } else { Some(rng.lit(CONS).to_string()) };
                }
            }
            4 if !pars.is_empty() => {
                let i = *rng.pick(&pars);
                if let Tok::Par { wild, .. } = &mut ts[i] { *wild = !*wild; }
            }
            5 if !lits.is_empty() => {
                let i = *rng.pick(&lits);
                if let Tok::Lit(l) = &mut ts[i] {
                    let to = match l.as_str() {
                        "a" => "b", "b" => "a", "é" => "è", "è" => "é", "日" => "早", "早" => "文", "文" => "日", "." => "-", "-" => ".",
                        "x" => "y", "m" => "n", "/" => "/", _ => "a",
                    };
                    *l = to.to_owned();
                }
            }
            6 => {
                let i = 1 + rng.below(ts.len());
                ts.insert(i.min(ts.len()), Tok::Lit(rng.lit(&["a", "b", "/", ".", "é", "è", "日", "早", "x", "-", "/a", " "]).to_string()));
            }
            7 if !lits.is_empty() => {
                let i = *rng.pick(&lits);
                ts.remove(i);
            }
            8 if !opens.is_empty() => {
                // (g) -> (g)(g)
                let i = *rng.pick(&opens);
                if let Some(j) = matching(&ts, i) {
                    let g: Vec<Tok> = ts[i..=j].to_vec();
                    for (k, t) in g.into_iter().enumerate() { ts.insert(j + 1 + k, t); }
                }
            }
            9 if !opens.is_empty() => {
                // (g) -> ((g))
                let i = *rng.pick(&opens);
                if let Some(j) = matching(&ts, i) {
                    ts.insert(j, Tok::Close);
                    ts.insert(i, Tok::Open);
                }
            }
            10 => {
                // a group around a balanced stretch
                let a = 1 + rng.below(ts.len());
                let b = a + rng.below(ts.len() + 1 - a.min(ts.len()));
                let (a, b) = (a.min(ts.len()), b.min(ts.len()));
                let mut d = 0i32;
                let mut ok = a < b;
                for t in &ts[a..b] {
                    match t { Tok::Open => d += 1, Tok::Close => { d -= 1; if d < 0 { ok = false; } } _ => {} }
                }
                if ok && d == 0 {
                    ts.insert(b, Tok::Close);
                    ts.insert(a, Tok::Open);
                } else {
                    continue;
                }
            }
            11 if !lits.is_empty() => {
                let i = *rng.pick(&lits);
                if let Tok::Lit(l) = &mut ts[i] {
                    if l.len() == 1 && l.chars().all(|c| c.is_ascii_alphanumeric()) { *l = format!("\\{l}"); } else { continue; }
                }
            }
            _ => continue,
        }
        let m = render(&ts);
        if m != t {
            return m;
        }
    }
    format!("{t}{}", rng.lit(&["/a", ".b", "/{id}", "(/)", "/{*w}"]))
}

const VALS: &[&str] = &["a", "b", "ab", "é", "1", "255", "256", "true", "x", "aa", "a/b", "m", "a/m/b", "/", ".", "a.b", "ée", "日", "-", "aé"];
const BITS: &[&str] = &["/", "a", "ab", "b", ".", "-", "é", "x", "1", "m", "//", "/x", "日"];

/// a path derived from one live expansion (values from a pool containing one-byte, multi-byte,
/// '/'-containing and delimiter-containing strings), then possibly mutated; or a random one
pub fn path(rng: &mut Rng, live: &[Vec<(char, Vec<u8>)>]) -> String {
    let mut s: Vec<u8> = vec![];
    if !live.is_empty() && rng.chance(3, 4) {
        let rt = rng.pick(live);
        for (k, a) in rt {
            if *k == 'S' {
                s.extend_from_slice(a);
            } else {
                s.extend_from_slice(rng.lit(VALS).as_bytes());
            }
        }
        match rng.below(8) {
            0 => {
                if !s.is_empty() {
                    let i = rng.below(s.len());
                    s.remove(i);
                }
            }
            1 => s.extend_from_slice(rng.lit(BITS).as_bytes()),
            2 => {
                let i = rng.below(s.len() + 1);
                s.insert(i, b'/');
            }
            3 => s.push(b'/'),
            _ => {}
        }
    } else {
        for _ in 0..rng.below(7) {
            s.extend_from_slice(rng.lit(BITS).as_bytes());
        }
        if !s.starts_with(b"/") && rng.chance(4, 5) {
            s.insert(0, b'/');
        }
    }
    String::from_utf8_lossy(&s).into_owned()
}

/// is byte offset `i` inside a `{...}` parameter of the template text (escapes honoured)?
fn inside_braces(t: &str, i: usize) -> bool {
    let b = t.as_bytes();
    let (mut k, mut depth) = (0, 0i32);
    while k < i {
        match b[k] {
            b'\\' => k += 1,
            b'{' => depth += 1,
            b'}' => depth -= 1,
            _ => {}
        }
        k += 1;
    }
    depth > 0 || (i > 0 && b[i - 1] == b'\\')
}

/// the generator's own router (it only tracks which templates are live) must not take the generator down when the crate
/// under test panics: the operation then counts as failed here, and the executor reports the panic with the exact operation
fn shadow_insert(r: &mut Router<u32>, t: &str, d: u32) -> bool {
    std::panic::catch_unwind(std::panic::AssertUnwindSafe(|| r.insert(t, d).is_ok())).unwrap_or(false)
}
fn shadow_delete(r: &mut Router<u32>, t: &str) -> bool {
    std::panic::catch_unwind(std::panic::AssertUnwindSafe(|| r.delete(t).is_ok())).unwrap_or(false)
}
fn shadow_clone(r: &Router<u32>) -> Router<u32> {
    std::panic::catch_unwind(std::panic::AssertUnwindSafe(|| r.clone())).unwrap_or_else(|_| shadow())
}

struct Hist {
    router: Router<u32>,
    live: Vec<(String, u32)>,
    routes: Vec<Vec<(char, Vec<u8>)>>,
}

impl Hist {
    fn refresh(&mut self) {
        self.routes = self.live.iter().flat_map(|(t, _)| parts_of(t)).collect();
    }
}

/// random multi-router histories over a collision-rich template pool
pub fn hist(rng: &mut Rng, histories: usize, family: bool, out: &mut Out) {
    hist_with(rng, histories, family, false, out)
}

/// `kin`: the template pool of a history is two base templates and chains of one-atom mutations of them (see `mutate`)
pub fn hist_with(rng: &mut Rng, histories: usize, family: bool, kin: bool, out: &mut Out) {
    for _ in 0..histories {
        out.reset();
        let mut keys: Vec<&str> = KEYS.to_vec();
        if rng.chance(1, 4) {
            keys.push(rng.lit(&["even_dup", "u8_dup", "alpha"]));
        }
        out.new_router(0, &keys);
        let pool: Vec<String> = if kin {
            let mut pool: Vec<String> = vec![];
            for _ in 0..2 {
                pool.push(if rng.chance(1, 2) { template(rng, false) } else { rng.lit(SHAPES).to_string() });
            }
            for _ in 0..(8 + rng.below(6)) {
                let base = rng.pick(&pool).clone();
                let m = mutate(rng, &base);
                if !pool.contains(&m) {
                    pool.push(m);
                }
            }
            pool
        } else {
            (0..(8 + rng.below(7))).map(|_| { let junk = rng.chance(1, 10); template(rng, junk) }).collect()
        };
        let mut hs: Vec<Option<Hist>> = vec![Some(Hist { router: shadow(), live: vec![], routes: vec![] }), None, None, None];
        let mut paths: Vec<String> = (0..4).map(|_| path(rng, &[])).collect();
        let mut next = 1u32;
        let nops = 20 + rng.below(41);
        for _ in 0..nops {
            let alive: Vec<usize> = (0..hs.len()).filter(|i| hs[*i].is_some()).collect();
            let r = *rng.pick(&alive);
            let k = rng.below(100);
            let mut battery = true;
            if k < 36 {
                let t = rng.pick(&pool).clone();
                out.insert(r, &t, next);
                let h = hs[r].as_mut().unwrap();
                if shadow_insert(&mut h.router, &t, next) {
                    h.live.push((t.clone(), next));
                    h.refresh();
                    let mine = parts_of(&t);
                    for _ in 0..3 {
                        paths.push(path(rng, &mine));
                    }
                }
                next += 1;
            } else if k < 52 {
                let h = hs[r].as_mut().unwrap();
                if h.live.is_empty() {
                    continue;
                }
                let t = rng.pick(&h.live).0.clone();
                out.delete(r, &t);
                if shadow_delete(&mut h.router, &t) {
                    h.live.retain(|x| x.0 != t);
                    h.refresh();
                }
            } else if k < 60 {
                // a template that is not live: from the pool, or a live template spelled differently
                // (a redundant backslash before an ordinary character parses to the same parts)
                let h = hs[r].as_ref().unwrap();
                let t = if !h.live.is_empty() && rng.chance(1, 2) {
                    let base = rng.pick(&h.live).0.clone();
                    let cand: Vec<usize> = base.char_indices().filter(|(i, c)| *i > 0 && c.is_ascii_alphanumeric() && !inside_braces(&base, *i)).map(|(i, _)| i).collect();
                    if cand.is_empty() {
                        rng.pick(&pool).clone()
                    } else {
                        let i = *rng.pick(&cand);
                        format!("{}\\{}", &base[..i], &base[i..])
                    }
                } else {
                    rng.pick(&pool).clone()
                };
                out.delete(r, &t);
                let h = hs[r].as_mut().unwrap();
                if shadow_delete(&mut h.router, &t) {
                    h.live.retain(|x| x.0 != t);
                    h.refresh();
                }
            } else if k < 66 {
                // failing calls: malformed templates, unknown constraints
                let t = match rng.below(4) {
                    0 => template(rng, true),
                    1 => format!("/{{a:zz}}{}", rng.lit(LITS)),
                    2 => rng.lit(&["", "a", "/{", "/}", "/(", "/)", "/()", "/{}", "/{a}{b}", "/{a}/{a}", "/{*}", "/{a:}", "/a\\"]).to_string(),
                    _ => format!("{}(", rng.pick(&pool)),
                };
                if rng.chance(1, 2) {
                    out.insert(r, &t, next);
                    let h = hs[r].as_mut().unwrap();
                    if shadow_insert(&mut h.router, &t, next) {
                        h.live.push((t.clone(), next));
                        h.refresh();
                    }
                    next += 1;
                } else {
                    out.delete(r, &t);
                    let h = hs[r].as_mut().unwrap();
                    if shadow_delete(&mut h.router, &t) {
                        h.live.retain(|x| x.0 != t);
                        h.refresh();
                    }
                }
            } else if k < 69 {
                out.op(format!("constraint {r} {}", rng.lit(crate::palette::CUSTOM_KEYS)));
                battery = false;
            } else if k < 75 && family {
                if let Some(free) = (0..hs.len()).find(|i| hs[*i].is_none()) {
                    out.op(format!("clone {r} {free}"));
                    let h = hs[r].as_ref().unwrap();
                    hs[free] = Some(Hist { router: shadow_clone(&h.router), live: h.live.clone(), routes: h.routes.clone() });
                    out.display(free);
                } else if alive.len() > 1 && rng.chance(1, 2) {
                    out.op(format!("drop {r}"));
                    hs[r] = None;
                    continue;
                } else if alive.len() > 1 {
                    // refresh another member of the family in place (`clone_from` onto a router that shares history)
                    let others: Vec<usize> = alive.iter().copied().filter(|i| *i != r).collect();
                    let r2 = *rng.pick(&others);
                    out.op(format!("clone {r} {r2}"));
                    let h = hs[r].as_ref().unwrap();
                    hs[r2] = Some(Hist { router: shadow_clone(&h.router), live: h.live.clone(), routes: h.routes.clone() });
                    out.display(r2);
                }
            } else if k < 81 {
                // rebuild the same live set in a fresh router, in sorted order (C05)
                let h = hs[r].as_ref().unwrap();
                let mut live = h.live.clone();
                live.sort();
                out.new_router(9, KEYS);
                for (t, d) in &live {
                    out.insert(9, t, *d);
                }
                out.display(9);
                for _ in 0..6 {
                    let p = rng.pick(&paths).clone();
                    out.search(9, &p);
                    out.search(r, &p);
                }
                out.op("drop 9".to_owned());
            } else if k < 87 {
                // detour: insert and delete a template that is not live (C10 round trip)
                let t = rng.pick(&pool).clone();
                let h = hs[r].as_mut().unwrap();
                if h.live.iter().any(|x| x.0 == t) {
                    continue;
                }
                out.display(r);
                out.insert(r, &t, next);
                if shadow_insert(&mut h.router, &t, next) {
                    let mine = parts_of(&t);
                    for _ in 0..2 {
                        let p = path(rng, &mine);
                        out.search(r, &p);
                        paths.push(p);
                    }
                    out.delete(r, &t);
                    let _ = shadow_delete(&mut h.router, &t);
                }
                next += 1;
            }
            if battery {
                if let Some(h) = hs[r].as_ref() {
                    out.display(r);
                    for _ in 0..8 {
                        let p = rng.pick(&paths).clone();
                        out.search(r, &p);
                    }
                    for _ in 0..3 {
                        let p = path(rng, &h.routes);
                        out.search(r, &p);
                        if paths.len() < 60 {
                            paths.push(p);
                        }
                    }
                }
            }
        }
    }
}

pub const SHAPES: &[&str] = &[
    "/", "/a", "/ab", "/a/b", "/a/", "/{a}", "/{b}", "/{a}/b", "/{a}/{b}", "/a/{a}", "/{a}.{b}", "/{a}.b", "/a{a}", "/{a}a",
    "/{*w}", "/{*w}/b", "/{*w}/b/{*v}", "/a/{*w}", "/{*w}.b", "/{a}/{*w}", "/{*w}/{a}", "/a(/b)", "(/a)", "/a(/{b})", "/{a}(/)",
    "/{a:alpha}", "/{a:nota}", "/{a:even}", "/{*w:nota}", "/{*w:nota}/b", "/{*w:even}", "/{a:nota}/b", "/{a:even}.{b}",
    "/{*w:hasslash}", "/{a}-{*w}", "/{*w}-{a}", "/a.{*w}(/)", "/{*w}/a/a", "/{*a}/{*v}", "/é", "/{a}é", "/é{a}", "/{*w}é/",
    "/{a}.{b}.{id}", "/b/{*w}/a", "/{a:alpha}/b", "/a/{*w:even}", "/{b:nota}.a",
];

const SCOPE_ALPHA: &[&str] = &["/", "a", "b", ".", "é", "-"];

pub fn all_strings(alpha: &[&str], max_len: usize) -> Vec<String> {
    let mut all = vec![String::new()];
    let mut frontier = vec![String::new()];
    for _ in 0..max_len {
        let mut nf = vec![];
        for s in &frontier {
            for a in alpha {
                nf.push(format!("{s}{a}"));
            }
        }
        all.extend(nf.iter().cloned());
        frontier = nf;
    }
    all
}

/// small-scope exhaustive: every set of up to `k` shapes × every path up to `max_len` symbols
pub fn scope(nshapes: usize, k: usize, max_len: usize, alpha_n: usize, out: &mut Out) {
    let shapes = &SHAPES[..nshapes.min(SHAPES.len())];
    let paths = all_strings(&SCOPE_ALPHA[..alpha_n], max_len);
    let mut sets: Vec<Vec<usize>> = (0..shapes.len()).map(|i| vec![i]).collect();
    if k >= 2 {
        for i in 0..shapes.len() {
            for j in i + 1..shapes.len() {
                sets.push(vec![i, j]);
            }
        }
    }
    if k >= 3 {
        for i in 0..shapes.len() {
            for j in i + 1..shapes.len() {
                for l in j + 1..shapes.len() {
                    sets.push(vec![i, j, l]);
                }
            }
        }
    }
    for set in sets {
        if !out.mine() {
            continue;
        }
        out.reset();
        out.new_router(0, KEYS);
        for (n, i) in set.iter().enumerate() {
            out.insert(0, shapes[*i], n as u32 + 1);
        }
        for p in &paths {
            out.search(0, p);
        }
    }
}

pub const SYNTAX: &[&str] = &["/", "a", "{", "}", "(", ")", "\\", ":", "*", "é", "b"];

/// exhaustive parser stream: every string up to `max_len` symbols over the first `n` syntax symbols
pub fn parse_stream(n: usize, max_len: usize, api_every: usize, out: &mut Out) {
    let strings = all_strings(&SYNTAX[..n], max_len);
    out.reset();
    out.new_router(0, KEYS);
    for (i, s) in strings.iter().enumerate() {
        if !out.mine() {
            continue;
        }
        out.op(format!("parse {}", hex(s.as_bytes())));
        if api_every > 0 && i % api_every == 0 {
            // through the public API as well: insert, print, search the template text itself, delete
            out.insert(0, s, 7);
            out.display(0);
            out.search(0, s);
            out.delete(0, s);
        }
    }
}

pub fn write(out: &Out, path: &str) {
    let mut s = String::new();
    for l in &out.lines {
        let _ = writeln!(s, "{l}");
    }
    std::fs::write(path, s).expect("write ops");
}
