//! Constructed suites: best-match cells, sibling order, duplicate expansions, insertion orders, overlapping
//! pairs, single templates, clone interleavings, junk, focused parser alphabets, printable-ASCII histories.
use crate::gen::{all_strings, path, template, Out, KEYS, SHAPES};
use crate::rng::Rng;
use crate::run::hex;

fn perms(n: usize) -> Vec<Vec<usize>> {
    if n == 0 {
        return vec![vec![]];
    }
    let mut out = vec![];
    for p in perms(n - 1) {
        for i in 0..=p.len() {
            let mut q = p.clone();
            q.insert(i, n - 1);
            out.push(q);
        }
    }
    out
}

/// Constructed best-match cells: two or three routes that share a first parameter (all four kinds, whole-segment
/// and inline) and continue differently, so that different capture lengths reach routes of different depth and
/// length; every path over a small alphabet.
pub fn cells(max_len: usize, out: &mut Out) {
    let max_len = max_len.saturating_sub(1);
    let params = ["{a}", "{*a}", "{a:even}", "{*a:even}", "{a:nota}", "{*a:nota}"];
    let prefixes = ["/", "/p/"];
    let seps = ["/", ".", "-"];
    let conts = ["{*v}", "a/a", "a", "{b}", "{b}/c", "a/{*v}", "{*v}/z", "{b:nota}/a", "{bbbbbb}", "a-c", "a.c", "c/z"];
    let paths = all_strings(&["a", "/", ".", "c", "z", "-"], max_len);
    for pre in prefixes {
        for par in params {
            for sep in seps {
                for i in 0..conts.len() {
                    for j in i + 1..conts.len() {
                        if !out.mine() {
                            continue;
                        }
                        out.reset();
                        out.new_router(0, KEYS);
                        let t1 = format!("{pre}{par}{sep}{}", conts[i]);
                        let t2 = format!("{pre}{par}{sep}{}", conts[j]);
                        out.insert(0, &t1, 1);
                        out.insert(0, &t2, 2);
                        // a third route that ends at the parameter (depth/length ties with the empty continuation)
                        out.insert(0, &format!("{pre}{par}"), 3);
                        for p in &paths {
                            // only paths that can reach the parameter
                            out.search(0, &format!("{pre}{p}"));
                        }
                        // structured longer paths: 2-4 tokens joined by the set's separator or '/', so that several
                        // capture lengths succeed in turn on routes of different rank (better, worse, better)
                        let toks = ["a", "c", "z"];
                        for n in 2..=4usize {
                            let mut idx = vec![0usize; n];
                            loop {
                                for joins in 0..(1u32 << (n - 1)) {
                                    let mut p = String::from(pre);
                                    for (k, t) in idx.iter().enumerate() {
                                        if k > 0 {
                                            p.push_str(if joins >> (k - 1) & 1 == 1 { "/" } else { sep });
                                        }
                                        p.push_str(toks[*t]);
                                    }
                                    out.search(0, &p);
                                }
                                let mut i = 0;
                                while i < n {
                                    idx[i] += 1;
                                    if idx[i] < toks.len() {
                                        break;
                                    }
                                    idx[i] = 0;
                                    i += 1;
                                }
                                if i == n {
                                    break;
                                }
                            }
                        }
                    }
                }
            }
        }
    }
}

/// Rank fields on clones: the `cells` shape (one parameter, two continuations of different rank, a route ending at the
/// parameter) with *grouped* templates (shared data carrying their own depth/length), searched on the original, on a
/// clone, and on a clone of the clone — the best-match rule reads `depth` and `length` of whatever `Clone` copied.
pub fn clonerank(size: usize, out: &mut Out) {
    let params = ["{a}", "{*a}", "{a:even}", "{*a:nota}"];
    let seps = ["/", ".", "-"];
    let conts = ["{*v}", "a/a", "a", "{b}", "{b}/c", "{bbbbbb}", "a-c", "c/z"];
    let pre = "/";
    let paths = all_strings(&["a", "/", ".", "c", "-"], 2 + size);
    let toks = ["a", "c", "z"];
    for par in params {
        for sep in seps {
            for i in 0..conts.len() {
                for j in i + 1..conts.len() {
                    for variant in 0..2 {
                        if !out.mine() {
                            continue;
                        }
                        out.reset();
                        out.new_router(0, KEYS);
                        let t1 = format!("{pre}{par}{sep}{}(/)", conts[i]);
                        let t2 = if variant == 1 { format!("{pre}{par}{sep}{}(/)", conts[j]) } else { format!("{pre}{par}{sep}{}", conts[j]) };
                        out.insert(0, &t1, 1);
                        out.insert(0, &t2, 2);
                        out.insert(0, &format!("{pre}{par}(/q)"), 3);
                        // a group in the middle: its two expansions end in sibling nodes
                        out.insert(0, &format!("{pre}{par}(-x)-y"), 4);
                        out.op("clone 0 1".to_owned());
                        out.op("clone 1 2".to_owned());
                        let mut battery: Vec<String> = paths.iter().map(|p| format!("{pre}{p}")).collect();
                        for p in ["a-x-y", "a-y", "c-x-y", "a-x-x-y", "aa-y", "a-0"] {
                            battery.insert(0, format!("{pre}{p}"));
                        }
                        for n in 2..=3usize {
                            let mut idx = vec![0usize; n];
                            loop {
                                for joins in 0..(1u32 << (n - 1)) {
                                    for tail in ["", "/"] {
                                        let mut p = String::from(pre);
                                        for (k, t) in idx.iter().enumerate() {
                                            if k > 0 {
                                                p.push_str(if joins >> (k - 1) & 1 == 1 { "/" } else { sep });
                                            }
                                            p.push_str(toks[*t]);
                                        }
                                        p.push_str(tail);
                                        battery.push(p);
                                    }
                                }
                                let mut i = 0;
                                while i < n {
                                    idx[i] += 1;
                                    if idx[i] < toks.len() {
                                        break;
                                    }
                                    idx[i] = 0;
                                    i += 1;
                                }
                                if i == n {
                                    break;
                                }
                            }
                        }
                        for r in 0..3 {
                            out.display(r);
                            for p in &battery {
                                out.search(r, p);
                            }
                        }
                        // the original moves on (new siblings shift stored positions), the stand-bys are refreshed in place:
                        // `clone_from` onto routers that share their history with the source
                        out.insert(0, "/0", 8);
                        out.insert(0, &format!("{pre}{par}{sep}0"), 9);
                        out.insert(0, &format!("{pre}{par}-0"), 10);
                        out.op("clone 0 1".to_owned());
                        out.op("clone 0 2".to_owned());
                        for r in 1..3 {
                            out.display(r);
                            for p in battery.iter().take(60) {
                                out.search(r, p);
                            }
                        }
                        // the copies stay independent: delete on the clone of the clone, then look again everywhere
                        out.delete(2, &t1);
                        for r in 0..3 {
                            out.display(r);
                            for p in battery.iter().take(40) {
                                out.search(r, p);
                            }
                        }
                    }
                }
            }
        }
    }
}

/// Sibling-order suite: templates that differ at exactly one position in kind, parameter name or constraint name
/// (names chosen so that "alphabetical by name, then constraint" differs from other plausible orders: by length,
/// by rendered key, by insertion), inserted in every order.
pub fn prio(size: usize, out: &mut Out) {
    let alts = [
        "{a}", "{a2}", "{a-b}", "{aa}", "{b}", "{B}", "{a:alpha}", "{a2:alpha}", "{a:even}", "{a-b:alpha}", "{b:alpha}", "{ab:nota}",
        "{*a}", "{*a2}", "{*b}", "{*a:alpha}", "{*a2:alpha}", "{*a:even}", "{*a.b:alpha}", "{*b:nota}", "x", "xa",
    ];
    let frames = [("/", ""), ("/", "/z"), ("/q/", ".z"), ("/", "/z/{*r}")];
    let tails = all_strings(&["x", "a", "/", ".", "z"], 2 + size);
    for (pre, suf) in frames {
        for i in 0..alts.len() {
            for j in i + 1..alts.len() {
                for k in j..alts.len() {
                    // pairs (k == j); triples over all alternatives for size >= 2, over the first nine otherwise
                    if k != j && size < 2 && k >= 9 {
                        continue;
                    }
                    if !out.mine() {
                        continue;
                    }
                    let set: Vec<&str> = if k == j { vec![alts[i], alts[j]] } else { vec![alts[i], alts[j], alts[k]] };
                    out.reset();
                    for perm in perms(set.len()) {
                        out.new_router(0, KEYS);
                        for (n, ix) in perm.iter().enumerate() {
                            out.insert(0, &format!("{pre}{}{suf}", set[*ix]), *ix as u32 + 1 + 10 * n as u32 * 0);
                        }
                        out.display(0);
                        for t in &tails {
                            out.search(0, &format!("{pre}{t}"));
                        }
                        // delete one sibling (no insert afterwards) and look again: the remaining order must hold
                        let victim = perm[perm.len() / 2];
                        out.delete(0, &format!("{pre}{}{suf}", set[victim]));
                        out.display(0);
                        for t in &tails {
                            out.search(0, &format!("{pre}{t}"));
                        }
                        out.op("drop 0".to_owned());
                    }
                }
            }
        }
    }
}

/// Duplicate-expansion family: templates whose expansions repeat a part sequence (the only way "overwrite an
/// existing node's data", "catch-all already present" and reference-count drops are reached).
pub fn dup(size: usize, out: &mut Out) {
    let heads = ["/(a)(a)", "(/a)(/a)", "(/\\a)(/a)", "/x(/a)(/a)", "/((a))(a)", "(/a)(/a)(/a)"];
    let tails = ["", "/{x}", "/{*x}", "{*x}", "/{x:alpha}", "/{*x:alpha}", "{*x:nota}", ".{x}"];
    let paths = all_strings(&["/", "a", "x", "."], 4 + size);
    for h in heads {
        for t in tails {
            if !out.mine() {
                continue;
            }
            let tpl = format!("{h}{t}");
            out.reset();
            out.new_router(0, KEYS);
            out.insert(0, &tpl, 5);
            out.op(format!("parse {}", hex(tpl.as_bytes())));
            out.display(0);
            for p in &paths {
                out.search(0, p);
            }
            // colliding inserts, clone, deletes on both, re-insert
            out.insert(0, &format!("/a{t}"), 6);
            out.insert(0, &format!("/a/a{t}"), 7);
            out.insert(0, &tpl, 8);
            out.op("clone 0 1".to_owned());
            out.delete(0, &format!("/a{t}"));
            out.delete(0, &tpl);
            out.display(0);
            out.display(1);
            for p in paths.iter().take(60) {
                out.search(0, p);
                out.search(1, p);
            }
            out.delete(1, &tpl);
            out.delete(1, &tpl);
            out.display(1);
            out.insert(1, &tpl, 9);
            out.insert(0, &tpl, 9);
            out.display(0);
            out.display(1);
            out.delete(0, &tpl);
            out.display(0);
        }
    }
}

/// Coinciding expansions *through a parameter*, next to a sibling that differs only in the parameter's name, constraint or
/// kind at that position: the second delete of the repeated route comes back to a node where the named child is gone
/// already (tenth round, C09-g: "a single child of that kind must be the one").
pub fn dupsib(size: usize, out: &mut Out) {
    let heads = [("((/x))", ""), ("(/x)(/x)", "/x"), ("/q((/x))", "/q"), ("((/x)(/x))", "")];
    let pars = ["{n}", "{n:alpha}", "{*n}", "{*n:alpha}"];
    let sibs = ["{m}", "{n:even}", "{m:alpha}", "{*m}", "{*n:even}", "{*m:alpha}", "{n}", "{*n}"];
    let tails = ["", "/e", ".e", "/e/{*r}"];
    let paths = all_strings(&["/", "x", "e", ".", "q"], 4 + size);
    for (h, sibhead) in heads {
        for par in pars {
            for sib in sibs {
                for tail in tails {
                    if par == sib || !out.mine() {
                        continue;
                    }
                    let tpl = format!("{h}/{par}{tail}");
                    let other = format!("{sibhead}/{sib}{tail}");
                    for order in 0..2 {
                        out.reset();
                        out.new_router(0, KEYS);
                        if order == 0 {
                            out.insert(0, &other, 1);
                            out.insert(0, &tpl, 2);
                        } else {
                            out.insert(0, &tpl, 2);
                            out.insert(0, &other, 1);
                        }
                        out.display(0);
                        for p in paths.iter().take(120) {
                            out.search(0, p);
                        }
                        out.op("clone 0 1".to_owned());
                        out.delete(0, &tpl);
                        out.display(0);
                        for p in paths.iter().take(120) {
                            out.search(0, p);
                        }
                        out.delete(0, &other);
                        out.display(0);
                        out.delete(1, &other);
                        out.delete(1, &tpl);
                        out.display(1);
                    }
                }
            }
        }
    }
}

/// Rank fields of grouped templates with multi-byte text: the `cells` shape where the competing continuations contain
/// characters of two and three bytes, so that byte length, character count and the length of the whole template all
/// differ (tenth round, C04-f: `length` counted in characters for shared data only). Every template of a set is grouped
/// in one variant and group-free in the other; the two must rank alike.
pub fn grouprank(size: usize, out: &mut Out) {
    let params: &[&str] = if size >= 2 { &["{a}", "{*a:even}", "{*a}", "{a:nota}"] } else { &["{a}", "{*a:even}", "{*a}"] };
    let seps = [".", "-", "/"];
    // "..{b}" / "{b}/{bb}": a literal "/.." next to a rival one level deeper (tenth round, C03-g: a word-at-a-time slash
    // counter that also counts '.' after '/')
    let all_conts = ["éé", "é", "{b}", "..{b}", "{b}/{bb}", "{b}.é", "ab", "abcd", "{*v}", "日", "abc", "{b}/é", "éa", "{bb}", "日{b}"];
    let conts = &all_conts[..if size >= 2 { all_conts.len() } else { 10 }];
    let toks = ["x", "éé", "é", "ab", "日", "..c"];
    let pre = "/";
    for &par in params {
        for sep in seps {
            for i in 0..conts.len() {
                for j in i + 1..conts.len() {
                    for variant in 0..2 {
                        if !out.mine() {
                            continue;
                        }
                        out.reset();
                        out.new_router(0, KEYS);
                        let g = |on: bool| if on { "(/k)" } else { "" };
                        let t1 = format!("{pre}{par}{sep}{}{}", conts[i], g(variant != 1));
                        let t2 = format!("{pre}{par}{sep}{}{}", conts[j], g(variant != 0));
                        out.insert(0, &t1, 1);
                        out.insert(0, &t2, 2);
                        out.insert(0, &format!("{pre}{par}(/q)"), 3);
                        out.display(0);
                        for n in 1..=3usize {
                            let mut idx = vec![0usize; n];
                            loop {
                                // quick tier: three-token paths only behind the plain token
                                if n == 3 && size < 2 && idx[0] != 0 {
                                    idx[0] = toks.len() - 1;
                                }
                                for joins in 0..(1u32 << (n - 1)) {
                                    for tail in ["", "/k"] {
                                        let mut p = String::from(pre);
                                        for (k, t) in idx.iter().enumerate() {
                                            if k > 0 {
                                                p.push_str(if joins >> (k - 1) & 1 == 1 { "/" } else { sep });
                                            }
                                            p.push_str(toks[*t]);
                                        }
                                        p.push_str(tail);
                                        out.search(0, &p);
                                    }
                                }
                                let mut i = 0;
                                while i < n {
                                    idx[i] += 1;
                                    if idx[i] < toks.len() {
                                        break;
                                    }
                                    idx[i] = 0;
                                    i += 1;
                                }
                                if i == n {
                                    break;
                                }
                            }
                        }
                    }
                }
            }
        }
    }
}

/// All insertion orders of small subsets of the shape list, each with an insert/delete detour at every position:
/// the observations of all orders fall into one live set.
pub fn orders(size: usize, rng: &mut Rng, out: &mut Out) {
    let nsets = 30 * size;
    let paths = all_strings(&["/", "a", "b", ".", "é"], 3);
    for _ in 0..nsets {
        let k = 3 + rng.below(2);
        let mut set: Vec<&str> = vec![];
        while set.len() < k {
            let s = SHAPES[rng.below(SHAPES.len())];
            if !set.contains(&s) {
                set.push(s);
            }
        }
        let extra = SHAPES[rng.below(SHAPES.len())];
        out.reset();
        for perm in perms(k) {
            let detour_at = rng.below(k + 1);
            out.new_router(0, KEYS);
            for (n, ix) in perm.iter().enumerate() {
                if n == detour_at && !set.contains(&extra) {
                    out.insert(0, extra, 99);
                    out.delete(0, extra);
                }
                out.insert(0, set[*ix], *ix as u32 + 1);
            }
            if detour_at == k && !set.contains(&extra) {
                out.insert(0, extra, 99);
                out.delete(0, extra);
            }
            out.display(0);
            for p in &paths {
                out.search(0, p);
            }
            // delete one template and observe again (sub-live-sets reached through different histories)
            out.delete(0, set[perm[0]]);
            out.display(0);
            for p in paths.iter().step_by(3) {
                out.search(0, p);
            }
            out.op("drop 0".to_owned());
        }
    }
}

/// All ordered pairs from a list of templates built to overlap in some but not all expansions.
pub fn pairs(size: usize, out: &mut Out) {
    let base = [
        "/a", "/a/", "/a(/)", "/a(/x)", "/a/b", "(/a)(/x)(/b)", "(/a)/x", "(/a)(/x)", "/a(/b(/c))", "/a/b(/c)", "/a(/b)/c", "/{x}", "/{y}", "/{x}(/)",
        "/{x:alpha}", "/{*x}", "/{*y}", "(/{x})", "(/{x})(/{*y})", "/a(/{x})", "/a/{x}", "/a(/{*x})", "/a/{*y}", "/\\a", "/(\\a)", "/a(b)", "/ab", "/(a)(b)",
        "/a((b))", "/(a(b))c", "/abc", "/ac", "/c", "/{x}.{y}", "/{x}(.{y})", "/{x}.a", "/{x:even}(/z)", "/{x:even}/z",
    ];
    let n = if size >= 2 { base.len() } else { base.len().min(30) };
    for i in 0..n {
        for j in 0..n {
            if i == j || !out.mine() {
                continue;
            }
            out.reset();
            out.new_router(0, KEYS);
            out.insert(0, base[i], 1);
            out.insert(0, base[j], 2);
            out.insert(0, base[(i + j) % n], 3);
            out.delete(0, base[j]);
            out.delete(0, base[i]);
            out.display(0);
        }
    }
}

/// Single group-free templates (parameters filling a segment and sharing one with literal text) against paths
/// derived from them with values that allow several assignments.
pub fn single(n: usize, rng: &mut Rng, out: &mut Out) {
    // literals that can overlap themselves (`--`, `aa`, `..`, `éé`) and values that end or start with a piece of them
    let lits = ["/", "a", ".", "-", "/a/", "x", "é", "/m/", "--", "aa", "..", "éé", "-a-", "aba"];
    let names = ["a", "b", "c", "d"];
    let cons = ["alpha", "nota", "even", "hasslash"];
    let vals = ["a", "a.a", "a-a.a", "a/a", "a/m/a", "aa", ".", "-", "é", "x.x", "a/a/a", "m", "/", "a.", ".a", "-a-", "a-", "-b", "--", "a--", "aaa", "b.", "..", "xé",
        "éé", "ab", "aba", "ba", "a-a", "-a"];
    for _ in 0..n {
        let mut t = String::from("/");
        let np = 1 + rng.below(3);
        let mut parts: Vec<(char, Vec<u8>)> = vec![('S', b"/".to_vec())];
        for k in 0..np {
            let wild = rng.chance(1, 2);
            let constrained = rng.chance(1, 4);
            t.push('{');
            if wild {
                t.push('*');
            }
            t.push_str(names[k]);
            if constrained {
                t.push(':');
                t.push_str(rng.lit(&cons));
            }
            t.push('}');
            parts.push(('p', vec![]));
            if k + 1 < np || rng.chance(1, 2) {
                let l = rng.lit(&lits);
                t.push_str(l);
                parts.push(('S', l.as_bytes().to_vec()));
            }
        }
        out.reset();
        out.new_router(0, KEYS);
        out.insert(0, &t, 1);
        for _ in 0..12 {
            let mut p: Vec<u8> = vec![];
            for (k, a) in &parts {
                if *k == 'S' {
                    p.extend_from_slice(a);
                } else {
                    p.extend_from_slice(rng.lit(&vals).as_bytes());
                }
            }
            if rng.chance(1, 6) {
                p.extend_from_slice(rng.lit(&lits).as_bytes());
            }
            out.search(0, &String::from_utf8_lossy(&p));
        }
    }
}

/// Every interleaving (up to a length) of inserts, clones, deletes on either router and drops.
pub fn clonescope(size: usize, out: &mut Out) {
    let acts = ["i0 /a(/b)", "i0 /c", "c01", "d0 /a(/b)", "d1 /a(/b)", "i1 /a(/b)", "x1", "d0 /c", "d1 /c", "i1 /a/b"];
    let len = 3 + size;
    let mut seq = vec![0usize; len];
    loop {
        if out.mine() {
            out.reset();
            out.new_router(0, KEYS);
            let mut has1 = false;
            let mut next = 1;
            for a in &seq {
                let act = acts[*a];
                let (cmd, arg) = act.split_at(2);
                let arg = arg.trim();
                match cmd {
                    "i0" => {
                        out.insert(0, arg, next);
                        next += 1;
                    }
                    "i1" if has1 => {
                        out.insert(1, arg, next);
                        next += 1;
                    }
                    "d0" => out.delete(0, arg),
                    "d1" if has1 => out.delete(1, arg),
                    "c0" => {
                        out.op("clone 0 1".to_owned());
                        has1 = true;
                    }
                    "x1" if has1 => {
                        out.op("drop 1".to_owned());
                        has1 = false;
                    }
                    _ => {}
                }
                out.display(0);
                out.search(0, "/a/b");
                out.search(0, "/a");
                if has1 {
                    out.display(1);
                    out.search(1, "/a/b");
                    out.search(1, "/a");
                }
            }
        }
        // next sequence
        let mut i = 0;
        loop {
            if i == len {
                return;
            }
            seq[i] += 1;
            if seq[i] < acts.len() {
                break;
            }
            seq[i] = 0;
            i += 1;
        }
    }
}

/// Arbitrary strings as templates and paths: long, deeply nested, control and multi-byte characters.
pub fn junk(n: usize, rng: &mut Rng, out: &mut Out) {
    let syms = ["/", "a", "{", "}", "(", ")", "\\", ":", "*", "é", "b", "\n", "\0", "日", "\u{10FFFF}", " ", "{a}", "{*b}", "(/", ")", "{a:u8}", "\t", "%2F", "//"];
    for h in 0..n {
        out.reset();
        out.new_router(0, KEYS);
        let mut next = 1;
        for _ in 0..12 {
            let len = match rng.below(4) {
                0 => rng.below(6),
                1 => rng.below(20),
                2 => rng.below(80),
                _ => rng.below(300),
            };
            let mut s = String::new();
            if rng.chance(3, 4) {
                s.push('/');
            }
            for _ in 0..len {
                s.push_str(rng.lit(&syms));
            }
            match rng.below(5) {
                0 | 1 => {
                    out.insert(0, &s, next);
                    next += 1;
                }
                2 => out.delete(0, &s),
                _ => out.search(0, &s),
            }
            if rng.chance(1, 3) {
                out.op(format!("parse {}", hex(s.as_bytes())));
            }
        }
        // deep but bounded nesting (stack depth is outside the model; the bound is reported)
        if h % 10 == 0 {
            let depth = 1 + rng.below(64);
            let t = format!("/a{}{}", "(/b".repeat(depth), ")".repeat(depth));
            out.insert(0, &t, next);
            out.search(0, &format!("/a{}", "/b".repeat(depth)));
            out.delete(0, &t);
            let u = format!("/{}x", "(".repeat(depth));
            out.insert(0, &u, next);
        }
        out.display(0);
        out.op("clone 0 1".to_owned());
        out.display(1);
    }
}

/// Focused parser alphabets: touching needs 7 symbols, a duplicate name 8.
pub fn parsefocus(max_len: usize, out: &mut Out) {
    let alphas: [&[&str]; 4] = [&["/", "a", "{", "}", ":"], &["/", "a", "b", "{", "}"], &["/", "a", "(", ")", "{", "}"], &["/", "a", "(", ")", "\\", "{", "}", "*"]];
    out.reset();
    out.new_router(0, KEYS);
    for (k, alpha) in alphas.iter().enumerate() {
        let len = if k == 3 { max_len.saturating_sub(1) } else { max_len };
        for (i, s) in all_strings(alpha, len).iter().enumerate() {
            if !out.mine() {
                continue;
            }
            out.op(format!("parse {}", hex(s.as_bytes())));
            if i % 101 == 0 {
                out.insert(0, s, 7);
                out.delete(0, s);
            }
        }
    }
    // token-level enumeration: every sequence of up to `max_len - 3` syntactic tokens after the leading slash — whole
    // parameters, escaped delimiters, group brackets, literals — reaches shapes a character-level sweep of the same cost
    // cannot (an escaped brace right before a parameter that follows another parameter, a group between two parameters, …)
    let toks = ["{a}", "{b}", "{a:alpha}", "{*w}", "\\{", "\\}", "\\(", "\\)", "\\\\", "(", ")", "/", "x", "{", "}"];
    let tlen = max_len.saturating_sub(3).max(3);
    for s in all_strings(&toks, tlen) {
        if !out.mine() {
            continue;
        }
        if s.is_empty() {
            continue;
        }
        let t = format!("/{s}");
        out.op(format!("parse {}", hex(t.as_bytes())));
    }
    // three-parameter templates: a duplicate check that only compares neighbours needs twelve symbols
    for s in ["/{a}/{b}/{a}", "/{a}/{a}/{b}", "/{a}.{b}.{a}", "/{*a}/{b}/{a:u8}", "/{a}/{b}{c}", "/{a}{b}/{c}", "/{a}/{b}/{c}{a}"] {
        out.op(format!("parse {}", hex(s.as_bytes())));
        out.insert(0, s, 1);
    }
    // duplicate and touching parameters for every pair of parameter kinds (plain, constrained, wildcard, constrained
    // wildcard; one- and two-letter names): the reported ranges are computed from the kind of the *earlier* parameter
    // (twelfth round, C14-g: a constrained wildcard measured one byte short)
    let kinds = |n: &str| [format!("{{{n}}}"), format!("{{{n}:alpha}}"), format!("{{*{n}}}"), format!("{{*{n}:alpha}}")];
    for name in ["a", "ab"] {
        for k1 in kinds(name) {
            for k2 in kinds(name) {
                for t in [format!("/{k1}/x/{k2}"), format!("/p{k1}-{k2}/q"), format!("/{k1}(/{k2})"), format!("(/{k1})/y/{k2}/z"), format!("/é{k1}/日/{k2}")] {
                    out.op(format!("parse {}", hex(t.as_bytes())));
                    out.insert(0, &t, 1);
                }
            }
            for k2 in kinds("z") {
                for t in [format!("/{k1}{k2}"), format!("/x/{k1}{k2}/y"), format!("/{k1}(/){k2}"), format!("/é{k1}{k2}日")] {
                    out.op(format!("parse {}", hex(t.as_bytes())));
                    out.insert(0, &t, 1);
                    out.delete(0, &t);
                }
            }
        }
    }
    // every error variant with multi-byte text before, inside and after the indicated range (byte offsets vs characters)
    for s in ["/{é}/{é}", "/日本語/{id}/{id:u32}", "/{é}/{b}/{é}/x", "/é/{a}/{a}", "/{a}/{a}/é", "/é{a}{b}", "/{é}{b}/日", "/{é", "/é}",
        "/日{", "/{é:}", "/é/{:a}", "/{*}/é", "/é/{*:u8}", "/é()", "/é(", "/é)/日", "/{é*}", "/é/{a*b}/é", "/{a:é/}", "/é/{a:b(}", "é",
        "日本/{a}", "/é{}", "/{}é", "/é(/{a}/{a})", "(/é{a}{b})/日"] {
        out.op(format!("parse {}", hex(s.as_bytes())));
        out.insert(0, s, 1);
        out.delete(0, s);
    }
}

/// Histories over a printable-ASCII pool without brackets or braces in literals (so the printed tree can be parsed back
/// unambiguously); blanks inside and at the end of literals are ordinary text and must survive in the labels.
pub fn ascii(n: usize, rng: &mut Rng, out: &mut Out) {
    let lits = ["/", "a", "ab", "abc", "b", ".", "-", "x.y", "/a/", "//", "m", "/m/", "/a", "/b", "abd", "ac", "_", "~q", "a ", " ", "b c", "a  "];
    let names = ["a", "b", "id", "id2", "w", "v", "a-b"];
    let cons = ["alpha", "nota", "even", "u8", "hasslash"];
    for _ in 0..n {
        out.reset();
        out.new_router(0, KEYS);
        let pool: Vec<String> = (0..(8 + rng.below(8)))
            .map(|_| {
                let mut s = String::from("/");
                let mut depth = 0;
                let mut last_param = false;
                for _ in 0..(1 + rng.below(6)) {
                    match rng.below(10) {
                        0..=3 => {
                            s.push_str(rng.lit(&lits));
                            last_param = false;
                        }
                        4..=6 if !last_param => {
                            s.push('{');
                            if rng.chance(2, 5) {
                                s.push('*');
                            }
                            s.push_str(rng.lit(&names));
                            if rng.chance(1, 3) {
                                s.push(':');
                                s.push_str(rng.lit(&cons));
                            }
                            s.push('}');
                            last_param = true;
                        }
                        7 => {
                            s.push('(');
                            s.push_str(rng.lit(&["/", ".", "-", "/a", "b"]));
                            depth += 1;
                            last_param = false;
                        }
                        8 if depth > 0 => {
                            s.push(')');
                            depth -= 1;
                        }
                        _ => {
                            s.push_str(rng.lit(&lits));
                            last_param = false;
                        }
                    }
                }
                for _ in 0..depth {
                    s.push(')');
                }
                s
            })
            .collect();
        let mut live: Vec<String> = vec![];
        let mut next = 1;
        for _ in 0..(15 + rng.below(30)) {
            if rng.chance(3, 5) || live.is_empty() {
                let t = rng.pick(&pool).clone();
                out.insert(0, &t, next);
                next += 1;
                if !live.contains(&t) {
                    live.push(t);
                }
            } else {
                let i = rng.below(live.len());
                let t = live.remove(i);
                out.delete(0, &t);
            }
            out.display(0);
        }
    }
}

/// group-rich histories (C04): the pool is made of templates with optional groups; paths come from the expansions
pub fn groups(n: usize, rng: &mut Rng, out: &mut Out) {
    for _ in 0..n {
        out.reset();
        out.new_router(0, KEYS);
        let mut pool: Vec<String> = vec![];
        while pool.len() < 6 {
            let t = template(rng, false);
            if t.contains('(') {
                pool.push(t);
            }
        }
        let mut next = 1;
        for _ in 0..10 {
            let t = rng.pick(&pool).clone();
            out.op(format!("parse {}", hex(t.as_bytes())));
            if rng.chance(2, 3) {
                out.insert(0, &t, next);
                next += 1;
            } else {
                out.delete(0, &t);
            }
            out.display(0);
            let mine = crate::gen::parts_of(&t);
            for _ in 0..8 {
                out.search(0, &path(rng, &mine));
            }
        }
    }
}

/// Optional-group templates whose expansions are inserted back to back before one `optimize`: an earlier expansion
/// changes something below an existing node (adds an inline suffix under a parameter, adds a sibling), a later, shorter
/// expansion splits an ancestor literal node. Stale flags or unsorted vectors below the split show in searches and drawings.
pub fn splitopt(size: usize, out: &mut Out) {
    let bases = ["/abc/", "/files/", "/api/v1/items/", "/ab"];
    let params = ["{x}", "{*x}", "{x:alpha}", "{*x:nota}"];
    let tails = ["/edit", "/e/{y}", "", "/{*rest}"];
    let suffixes = [".txt", "-v", "~b", ".{ext}", "_1/z"];
    let vals = ["a", "r.txt", "a-v", "a/b", "r~b", "a.b.txt", "q_1", "a/b.txt", "x-v/edit"];
    for base in bases {
        for par in params {
            for tail in tails {
                for suf in suffixes {
                    for k in 1..base.len().min(2 + 2 * size) {
                        if !out.mine() || !base.is_char_boundary(k) {
                            continue;
                        }
                        let t1 = format!("{base}{par}{tail}");
                        let t2 = format!("{}({}{par}{suf})", &base[..k], &base[k..]);
                        let extra = format!("{base}k");
                        for order in 0..2 {
                            out.reset();
                            out.new_router(0, KEYS);
                            if order == 0 {
                                out.insert(0, &t1, 1);
                                out.insert(0, &extra, 3);
                                out.insert(0, &t2, 2);
                            } else {
                                out.insert(0, &t2, 2);
                                out.insert(0, &t1, 1);
                                out.insert(0, &extra, 3);
                            }
                            out.display(0);
                            for v in vals {
                                for t in ["", "/edit", "/e/q", ".txt", "-v", "~b", ".e", "_1/z", "/r/s"] {
                                    out.search(0, &format!("{base}{v}{t}"));
                                }
                            }
                            out.search(0, &base[..k]);
                            out.delete(0, &t2);
                            out.display(0);
                            for v in vals.iter().take(4) {
                                out.search(0, &format!("{base}{v}/edit"));
                                out.search(0, &format!("{base}{v}.txt"));
                            }
                        }
                    }
                }
            }
        }
    }
}
