mod ociapp;
mod gen;
mod gen2;
mod gen3;
mod palette;
mod rng;
mod run;

use std::io::{BufRead, BufWriter, Write};

fn usage() -> ! {
    eprintln!("usage: wfh gen <suite> <seed> <size> <chunk> <nchunks> <ops-out>\n       wfh run <ops-in> <ops-full-out> <impl-out> <oracle-out>");
    std::process::exit(2)
}

fn main() {
    std::panic::set_hook(Box::new(|_| {}));
    let args: Vec<String> = std::env::args().collect();
    match args.get(1).map(String::as_str) {
        Some("gen") if args.len() == 8 => {
            // wfh gen <suite> <seed> <size> <chunk> <nchunks> <ops-out>
            let seed: u64 = args[3].parse().unwrap_or(1);
            let size: usize = args[4].parse().unwrap_or(1);
            let chunk: usize = args[5].parse().unwrap_or(0);
            let nchunks: usize = args[6].parse().unwrap_or(1);
            let mut rng = rng::Rng::new(seed.wrapping_mul(1000).wrapping_add(chunk as u64));
            let mut out = gen::Out { lines: vec![], chunk, nchunks, counter: 0 };
            match args[2].as_str() {
                "hist" => gen::hist(&mut rng, size, false, &mut out),
                "family" => gen::hist(&mut rng, size, true, &mut out),
                "kin" => gen::hist_with(&mut rng, size, false, true, &mut out),
                "kinfamily" => gen::hist_with(&mut rng, size, true, true, &mut out),
                "scope" => gen::scope(48, 2, size, 5, &mut out),
                "scope1" => gen::scope(48, 1, size, 6, &mut out),
                "parse" => gen::parse_stream(10, size, 7, &mut out),
                "cells" => gen2::cells(3 + size, &mut out),
                "prio" => gen2::prio(size, &mut out),
                "dup" => gen2::dup(size, &mut out),
                "dupsib" => gen2::dupsib(size, &mut out),
                "grouprank" => gen2::grouprank(size, &mut out),
                "orders" => gen2::orders(size, &mut rng, &mut out),
                "pairs" => gen2::pairs(size, &mut out),
                "single" => gen2::single(size, &mut rng, &mut out),
                "clonescope" => gen2::clonescope(size, &mut out),
                "clonerank" => gen2::clonerank(size, &mut out),
                "junk" => gen2::junk(size, &mut rng, &mut out),
                "parsefocus" => gen2::parsefocus(size, &mut out),
                "ascii" => gen2::ascii(size, &mut rng, &mut out),
                "groups" => gen2::groups(size, &mut rng, &mut out),
                "splitopt" => gen2::splitopt(size, &mut out),
                "fromstr" => gen3::fromstr(size, &mut rng, &mut out),
                "regs" => gen3::regs(size, &mut out),
                "sibs" => gen3::sibs(size, &mut out),
                "oci" => gen3::oci(size, &mut out),
                "threads" => gen3::threads(size, &mut rng, &mut out),
                "long" => gen3::long(size, &mut out),
                _ => usage(),
            }
            gen::write(&out, &args[7]);
        }
        Some("suites") => println!("hist family kin kinfamily scope scope1 parse cells prio dup dupsib grouprank orders pairs single clonescope clonerank junk parsefocus ascii groups splitopt fromstr regs sibs oci threads long"),
        Some("run") if args.len() == 6 => {
            let input = std::io::BufReader::new(std::fs::File::open(&args[2]).expect("ops"));
            let mut full = BufWriter::new(std::fs::File::create(&args[3]).expect("full"));
            let mut imp = BufWriter::new(std::fs::File::create(&args[4]).expect("impl"));
            let mut ex = run::Exec::default();
            for (idx, line) in input.lines().enumerate() {
                let line = line.expect("line");
                let (f, o) = ex.step(idx, line.trim_end());
                writeln!(full, "{f}").unwrap();
                writeln!(imp, "{o}").unwrap();
            }
            let mut orc = BufWriter::new(std::fs::File::create(&args[5]).expect("oracle"));
            for l in &ex.oracle {
                writeln!(orc, "{l}").unwrap();
            }
            for (k, v) in &ex.stats {
                writeln!(orc, "S {k} {v}").unwrap();
            }
        }
        _ => usage(),
    }
}
