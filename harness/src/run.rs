//! Executes an abstract operation file against the real `wayfind::Router`, in-process, one
//! `catch_unwind` per operation. Writes the completed operation file (constraint tables, type names)
//! for the Lean model and one canonical output line per operation.
use crate::palette::{self, Check};
use std::collections::HashMap;
use std::fmt::Write as _;
use std::panic::{catch_unwind, AssertUnwindSafe};
use wayfind::errors::{ConstraintError, DeleteError, InsertError, TemplateError};
use wayfind::Router;

pub fn hex(b: &[u8]) -> String {
    if b.is_empty() {
        return "-".to_owned();
    }
    let mut s = String::with_capacity(b.len() * 2);
    for x in b {
        let _ = write!(s, "{x:02x}");
    }
    s
}

pub fn unhex(s: &str) -> Option<Vec<u8>> {
    if s == "-" {
        return Some(vec![]);
    }
    if s.len() % 2 != 0 {
        return None;
    }
    (0..s.len() / 2).map(|i| u8::from_str_radix(s.get(2 * i..2 * i + 2)?, 16).ok()).collect()
}

pub fn show_terr(e: &TemplateError) -> String {
    use TemplateError as T;
    let h = |s: &String| hex(s.as_bytes());
    match e {
        T::Empty => "Empty".to_owned(),
        T::MissingLeadingSlash { template } => format!("MissingLeadingSlash {}", h(template)),
        T::EmptyBraces { template, position } => format!("EmptyBraces {} {position}", h(template)),
        T::UnbalancedBrace { template, position } => format!("UnbalancedBrace {} {position}", h(template)),
        T::EmptyParentheses { template, position } => format!("EmptyParentheses {} {position}", h(template)),
        T::UnbalancedParenthesis { template, position } => format!("UnbalancedParenthesis {} {position}", h(template)),
        T::EmptyParameter { template, start, length } => format!("EmptyParameter {} {start} {length}", h(template)),
        T::InvalidParameter { template, name, start, length } => format!("InvalidParameter {} {} {start} {length}", h(template), h(name)),
        T::DuplicateParameter { template, name, first, first_length, second, second_length } => {
            format!("DuplicateParameter {} {} {first} {first_length} {second} {second_length}", h(template), h(name))
        }
        T::EmptyWildcard { template, start, length } => format!("EmptyWildcard {} {start} {length}", h(template)),
        T::EmptyConstraint { template, start, length } => format!("EmptyConstraint {} {start} {length}", h(template)),
        T::InvalidConstraint { template, name, start, length } => format!("InvalidConstraint {} {} {start} {length}", h(template), h(name)),
        T::TouchingParameters { template, start, length } => format!("TouchingParameters {} {start} {length}", h(template)),
    }
}

struct R {
    router: Router<u32>,
    checks: Vec<(&'static str, Check)>,
    live: Vec<String>,
    /// every template ever inserted successfully (constraint tables keep covering deleted templates)
    ever: Vec<String>,
}

impl Clone for R {
    fn clone(&self) -> Self {
        R { router: self.router.clone(), checks: self.checks.clone(), live: self.live.clone(), ever: self.ever.clone() }
    }
}

#[derive(Default)]
pub struct Exec {
    routers: HashMap<usize, R>,
    pub oracle: Vec<String>,
    pub stats: HashMap<String, u64>,
}

fn panic_msg(p: Box<dyn std::any::Any + Send>) -> String {
    let m = if let Some(s) = p.downcast_ref::<&str>() {
        (*s).to_owned()
    } else if let Some(s) = p.downcast_ref::<String>() {
        s.clone()
    } else {
        "?".to_owned()
    };
    format!("panic {}", hex(m.as_bytes()))
}

/// C19 (rendering half): the message contains every payload string verbatim.
fn contains_all(idx: usize, what: &str, rendered: &str, fields: &[&str], oracle: &mut Vec<String>) {
    for f in fields {
        if !rendered.contains(f) {
            oracle.push(format!("O {idx} C19 rendered {what} message does not contain payload string {}", hex(f.as_bytes())));
        }
    }
}

/// C14 (rendering half): `    Template: <template>` followed by the caret line.
fn check_caret(idx: usize, e: &TemplateError, rendered: &str, oracle: &mut Vec<String>) {
    use TemplateError as T;
    let (template, spans): (&str, Vec<(usize, usize)>) = match e {
        T::Empty => return,
        T::MissingLeadingSlash { template } => (template, vec![]),
        T::EmptyBraces { template, position } | T::EmptyParentheses { template, position } => (template, vec![(*position, 2)]),
        T::UnbalancedBrace { template, position } | T::UnbalancedParenthesis { template, position } => (template, vec![(*position, 1)]),
        T::EmptyParameter { template, start, length }
        | T::EmptyWildcard { template, start, length }
        | T::EmptyConstraint { template, start, length }
        | T::TouchingParameters { template, start, length }
        | T::InvalidParameter { template, start, length, .. }
        | T::InvalidConstraint { template, start, length, .. } => (template, vec![(*start, *length)]),
        T::DuplicateParameter { template, first, first_length, second, second_length, .. } => {
            (template, vec![(*first, *first_length), (*second, *second_length)])
        }
    };
    let lines: Vec<&str> = rendered.split('\n').collect();
    let want = format!("    Template: {template}");
    // the template itself may contain newlines; compare on the joined text
    let Some(pos) = rendered.find(&want) else {
        oracle.push(format!("O {idx} C14 rendering lacks the line [    Template: <template>]"));
        return;
    };
    let _ = lines;
    if spans.is_empty() {
        return;
    }
    let mut caret = vec![b' '; spans.iter().map(|(s, l)| s + l).max().unwrap_or(0)];
    for (s, l) in &spans {
        for c in caret.iter_mut().skip(*s).take(*l) {
            *c = b'^';
        }
    }
    let caret = String::from_utf8(caret).unwrap();
    let after = &rendered[pos + want.len()..];
    let expect = format!("\n              {caret}");
    let ok = after.starts_with(&expect) && {
        let rest = &after[expect.len()..];
        rest.trim_start_matches(' ').is_empty() || rest.trim_start_matches(' ').starts_with('\n')
    };
    if !ok {
        oracle.push(format!("O {idx} C14 caret line is not {} spaces/carets as stated by the payload", caret.len()));
    }
}

impl Exec {
    fn bump(&mut self, k: &str) {
        *self.stats.entry(k.to_owned()).or_insert(0) += 1;
    }

    /// returns (completed operation line, output line)
    pub fn step(&mut self, idx: usize, line: &str) -> (String, String) {
        let f: Vec<&str> = line.split(' ').collect();
        let bad = || (line.to_owned(), "bad-op".to_owned());
        let num = |s: &str| s.parse::<usize>().ok();
        match f.as_slice() {
            ["reset"] => {
                self.routers.clear();
                (line.to_owned(), "ok".to_owned())
            }
            ["new", r] => {
                let Some(r) = num(r) else { return bad() };
                let res = catch_unwind(|| Router::<u32>::new());
                let b = palette::builtins();
                let table: Vec<String> = b.iter().map(|(n, t, _)| format!("{}:{}", hex(n.as_bytes()), hex(t.as_bytes()))).collect();
                let full = format!("new {r} {}", table.join(","));
                match res {
                    Ok(router) => {
                        self.routers.insert(r, R { router, checks: b.iter().map(|(n, _, c)| (*n, *c)).collect(), live: vec![], ever: vec![] });
                        (full, "ok".to_owned())
                    }
                    Err(p) => (full, panic_msg(p)),
                }
            }
            ["constraint", r, key] => {
                let (Some(r), true) = (num(r), palette::CUSTOM_KEYS.contains(key)) else { return bad() };
                let Some(x) = self.routers.get_mut(&r) else { return (line.to_owned(), "bad-router".to_owned()) };
                let res = catch_unwind(AssertUnwindSafe(|| palette::register(&mut x.router, key)));
                match res {
                    Ok(Some((name, ty, check, outcome))) => {
                        let full = format!("constraint {r} {} {}", hex(name.as_bytes()), hex(ty.as_bytes()));
                        let out = match outcome {
                            Ok(()) => {
                                x.checks.push((name, check));
                                "ok".to_owned()
                            }
                            Err(e) => {
                                let rendered = e.to_string();
                                let ConstraintError::DuplicateName { name, existing_type, new_type } = e;
                                contains_all(idx, "DuplicateName", &rendered, &[name, existing_type, new_type], &mut self.oracle);
                                if new_type != ty {
                                    self.oracle.push(format!("O {idx} C19 DuplicateName carries the wrong new type"));
                                }
                                format!("err DuplicateName {} {} {} R={}", hex(name.as_bytes()), hex(existing_type.as_bytes()), hex(new_type.as_bytes()), hex(rendered.as_bytes()))
                            }
                        };
                        (full, out)
                    }
                    Ok(None) => bad(),
                    Err(p) => (line.to_owned(), panic_msg(p)),
                }
            }
            ["insert", r, t, d] => {
                let (Some(r), Some(tb), Ok(d)) = (num(r), unhex(t), d.parse::<u32>()) else { return bad() };
                let Ok(ts) = String::from_utf8(tb) else { return bad() };
                let Some(x) = self.routers.get_mut(&r) else { return (line.to_owned(), "bad-router".to_owned()) };
                let res = catch_unwind(AssertUnwindSafe(|| x.router.insert(&ts, d)));
                let out = match res {
                    Ok(Ok(())) => {
                        x.ever.push(ts.clone());
                        x.live.push(ts);
                        "ok".to_owned()
                    }
                    Ok(Err(e)) => {
                        let rendered = catch_unwind(AssertUnwindSafe(|| e.to_string()));
                        let rendered = match rendered {
                            Ok(s) => s,
                            Err(p) => return (line.to_owned(), panic_msg(p)),
                        };
                        let core = match &e {
                            InsertError::Template(te) => {
                                check_caret(idx, te, &rendered, &mut self.oracle);
                                format!("err Template {}", show_terr(te))
                            }
                            InsertError::UnknownConstraint { constraint } => {
                                contains_all(idx, "UnknownConstraint", &rendered, &[constraint], &mut self.oracle);
                                format!("err UnknownConstraint {}", hex(constraint.as_bytes()))
                            }
                            InsertError::Conflict { template, conflicts } => {
                                let mut fs: Vec<&str> = vec![template];
                                fs.extend(conflicts.iter().map(String::as_str));
                                contains_all(idx, "Conflict", &rendered, &fs, &mut self.oracle);
                                let cs: Vec<String> = conflicts.iter().map(|c| hex(c.as_bytes())).collect();
                                format!("err Conflict {} {}", hex(template.as_bytes()), cs.join(","))
                            }
                        };
                        format!("{core} R={}", hex(rendered.as_bytes()))
                    }
                    Err(p) => panic_msg(p),
                };
                (line.to_owned(), out)
            }
            ["delete", r, t] => {
                let (Some(r), Some(tb)) = (num(r), unhex(t)) else { return bad() };
                let Ok(ts) = String::from_utf8(tb) else { return bad() };
                let Some(x) = self.routers.get_mut(&r) else { return (line.to_owned(), "bad-router".to_owned()) };
                let res = catch_unwind(AssertUnwindSafe(|| x.router.delete(&ts)));
                let out = match res {
                    Ok(Ok(d)) => {
                        x.live.retain(|l| *l != ts);
                        format!("ok {d}")
                    }
                    Ok(Err(e)) => {
                        let rendered = match catch_unwind(AssertUnwindSafe(|| e.to_string())) {
                            Ok(s) => s,
                            Err(p) => return (line.to_owned(), panic_msg(p)),
                        };
                        let core = match &e {
                            DeleteError::Template(te) => {
                                check_caret(idx, te, &rendered, &mut self.oracle);
                                format!("err Template {}", show_terr(te))
                            }
                            DeleteError::NotFound { template } => {
                                contains_all(idx, "NotFound", &rendered, &[template], &mut self.oracle);
                                format!("err NotFound {}", hex(template.as_bytes()))
                            }
                            DeleteError::Mismatch { template, inserted } => {
                                contains_all(idx, "Mismatch", &rendered, &[template, inserted], &mut self.oracle);
                                format!("err Mismatch {} {}", hex(template.as_bytes()), hex(inserted.as_bytes()))
                            }
                        };
                        format!("{core} R={}", hex(rendered.as_bytes()))
                    }
                    Err(p) => panic_msg(p),
                };
                (line.to_owned(), out)
            }
            ["search", r, p] => {
                let (Some(r), Some(pb)) = (num(r), unhex(p)) else { return bad() };
                let Ok(ps) = String::from_utf8(pb) else { return bad() };
                let Some(x) = self.routers.get(&r) else { return (line.to_owned(), "bad-router".to_owned()) };
                // constraint table: for every registered name that a live template mentions, the accepted substrings
                let mut table: Vec<String> = vec![];
                for (name, check) in &x.checks {
                    let needle = format!(":{name}}}");
                    if !x.ever.iter().any(|t| t.contains(&needle)) {
                        continue;
                    }
                    let mut acc: Vec<&str> = vec![];
                    for s in 0..ps.len() {
                        for e in s + 1..=ps.len() {
                            if let Some(v) = ps.get(s..e) {
                                if check(v) && !acc.contains(&v) {
                                    acc.push(v);
                                }
                            }
                        }
                    }
                    let vs: Vec<String> = acc.iter().map(|v| hex(v.as_bytes())).collect();
                    table.push(format!("{}={}", hex(name.as_bytes()), vs.join(",")));
                }
                let full = format!("search {r} {p} {}", if table.is_empty() { ".".to_owned() } else { table.join(";") });
                let res = catch_unwind(AssertUnwindSafe(|| {
                    x.router.search(&ps).map(|m| {
                        let mut l = format!(
                            "match {} {} {}",
                            hex(m.template.as_bytes()),
                            m.expanded.map_or_else(|| ".".to_owned(), |e| hex(e.as_bytes())),
                            m.data
                        );
                        for (k, v) in &m.parameters {
                            let _ = write!(l, " {}={}", hex(k.as_bytes()), hex(v.as_bytes()));
                        }
                        l
                    })
                }));
                let out = match res {
                    Ok(Some(l)) => l,
                    Ok(None) => "none".to_owned(),
                    Err(p) => panic_msg(p),
                };
                (full, out)
            }
            ["display", r] => {
                let Some(r) = num(r) else { return bad() };
                let Some(x) = self.routers.get(&r) else { return (line.to_owned(), "bad-router".to_owned()) };
                let out = match catch_unwind(AssertUnwindSafe(|| x.router.to_string())) {
                    Ok(s) => format!("tree {}", hex(s.as_bytes())),
                    Err(p) => panic_msg(p),
                };
                (line.to_owned(), out)
            }
            ["clone", r, r2] => {
                let (Some(r), Some(r2)) = (num(r), num(r2)) else { return bad() };
                let Some(x) = self.routers.get(&r) else { return (line.to_owned(), "bad-router".to_owned()) };
                match catch_unwind(AssertUnwindSafe(|| x.clone())) {
                    Ok(c) => {
                        self.routers.insert(r2, c);
                        (line.to_owned(), "ok".to_owned())
                    }
                    Err(p) => (line.to_owned(), panic_msg(p)),
                }
            }
            ["drop", r] => {
                let Some(r) = num(r) else { return bad() };
                self.routers.remove(&r);
                (line.to_owned(), "ok".to_owned())
            }
            ["parse", t] => {
                let Some(tb) = unhex(t) else { return bad() };
                (line.to_owned(), self.parse(idx, &tb))
            }
            _ => {
                self.bump("bad-op");
                bad()
            }
        }
    }

    #[cfg(feature = "hook")]
    fn parse(&mut self, idx: usize, t: &[u8]) -> String {
        match catch_unwind(|| wayfind::verif::parse_dump(t)) {
            Ok(Ok(ts)) => {
                let es: Vec<String> = ts
                    .iter()
                    .map(|(raw, parts)| {
                        let ps: Vec<String> = parts
                            .iter()
                            .map(|(k, a, b)| if *k == 'S' { format!("S{}", hex(a)) } else { format!("P{k}{}:{}", hex(a), hex(b)) })
                            .collect();
                        format!("{}|{}", hex(raw), ps.join(","))
                    })
                    .collect();
                format!("ok {}", es.join(";"))
            }
            Ok(Err(e)) => {
                let rendered = match catch_unwind(AssertUnwindSafe(|| e.to_string())) {
                    Ok(s) => s,
                    Err(p) => return panic_msg(p),
                };
                check_caret(idx, &e, &rendered, &mut self.oracle);
                format!("err {} R={}", show_terr(&e), hex(rendered.as_bytes()))
            }
            Err(p) => panic_msg(p),
        }
    }

    #[cfg(not(feature = "hook"))]
    fn parse(&mut self, _idx: usize, _t: &[u8]) -> String {
        "no-hook".to_owned()
    }
}
