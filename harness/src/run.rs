//! Executes an abstract operation file against the real `wayfind::Router`, in-process, one
//! `catch_unwind` per operation. Writes the completed operation file (constraint tables, type names)
//! for the Lean model and one canonical output line per operation.
use crate::palette::{self, Check};
use std::collections::HashMap;
use std::fmt::Write as _;
use std::panic::{catch_unwind, AssertUnwindSafe};
use wayfind::errors::{ConstraintError, DeleteError, InsertError, TemplateError};
use wayfind::Router;

pub fn hex(b: &[u8]) -> String {
    if b.is_empty() {
        return "-".to_owned();
    }
    let mut s = String::with_capacity(b.len() * 2);
    for x in b {
        let _ = write!(s, "{x:02x}");
    }
    s
}

pub fn unhex(s: &str) -> Option<Vec<u8>> {
    if s == "-" {
        return Some(vec![]);
    }
    if s.len() % 2 != 0 {
        return None;
    }
    (0..s.len() / 2).map(|i| u8::from_str_radix(s.get(2 * i..2 * i + 2)?, 16).ok()).collect()
}

pub fn show_terr(e: &TemplateError) -> String {
    use TemplateError as T;
    let h = |s: &String| hex(s.as_bytes());
    match e {
        T::Empty => "Empty".to_owned(),
        T::MissingLeadingSlash { template } => format!("MissingLeadingSlash {}", h(template)),
        T::EmptyBraces { template, position } => format!("EmptyBraces {} {position}", h(template)),
        T::UnbalancedBrace { template, position } => format!("UnbalancedBrace {} {position}", h(template)),
        T::EmptyParentheses { template, position } => format!("EmptyParentheses {} {position}", h(template)),
        T::UnbalancedParenthesis { template, position } => format!("UnbalancedParenthesis {} {position}", h(template)),
        T::EmptyParameter { template, start, length } => format!("EmptyParameter {} {start} {length}", h(template)),
        T::InvalidParameter { template, name, start, length } => format!("InvalidParameter {} {} {start} {length}", h(template), h(name)),
        T::DuplicateParameter { template, name, first, first_length, second, second_length } => {
            format!("DuplicateParameter {} {} {first} {first_length} {second} {second_length}", h(template), h(name))
        }
        T::EmptyWildcard { template, start, length } => format!("EmptyWildcard {} {start} {length}", h(template)),
        T::EmptyConstraint { template, start, length } => format!("EmptyConstraint {} {start} {length}", h(template)),
        T::InvalidConstraint { template, name, start, length } => format!("InvalidConstraint {} {} {start} {length}", h(template), h(name)),
        T::TouchingParameters { template, start, length } => format!("TouchingParameters {} {start} {length}", h(template)),
    }
}

/// the hook's structural dump as one line: `dump <entries> F=<hidden state>`; an entry is
/// `depth,kind,label,constraint,D|.` (labels hex), the hidden state of a node its two shortcut flags and dirty mark
#[cfg(feature = "hook")]
fn dump_line(router: &Router<u32>) -> String {
    match catch_unwind(AssertUnwindSafe(|| wayfind::verif::tree_dump(router))) {
        Ok(text) => {
            let mut skel = vec![];
            let mut hidden = vec![];
            for l in text.lines() {
                let f: Vec<&str> = l.split(' ').collect();
                if f.len() != 6 {
                    return "dump-unavailable".to_owned();
                }
                skel.push(f[..5].join(","));
                hidden.push(f[5].to_owned());
            }
            format!("dump {} F={}{}", skel.join(";"), hidden.join(";"), data_part(router))
        }
        Err(p) => panic_msg(p),
    }
}
/// ` I=<entries>`: what is stored with every routable node (hook `data_dump`): `depth:length:template:expanded`
#[cfg(feature = "hookdata")]
fn data_part(router: &Router<u32>) -> String {
    match catch_unwind(AssertUnwindSafe(|| wayfind::verif::data_dump(router))) {
        Ok(text) => format!(" I={}", text.lines().map(|l| l.split(' ').collect::<Vec<_>>().join(":")).collect::<Vec<_>>().join(";")),
        Err(_) => String::new(),
    }
}
#[cfg(all(feature = "hook", not(feature = "hookdata")))]
fn data_part(_router: &Router<u32>) -> String {
    String::new()
}
#[cfg(not(feature = "hook"))]
fn dump_line(_router: &Router<u32>) -> String {
    "dump-unavailable".to_owned()
}

struct R {
    router: Router<u32>,
    checks: Vec<(&'static str, Check)>,
    /// type name recorded for every registered constraint name (built-ins: `type_name` of the built-in type)
    types: Vec<(&'static str, &'static str)>,
    live: Vec<String>,
    /// every template ever inserted successfully (constraint tables keep covering deleted templates)
    ever: Vec<String>,
    /// built-in constraints of the crate that the palette does not know (added after this harness was written): their
    /// name and a probe router holding only `/{*x:NAME}`, through which the check function is evaluated
    extra: Vec<(String, std::sync::Arc<Router<u8>>)>,
}

/// Constraint names that `Router::new` registers beyond the 17 the palette knows: every `const NAME` of
/// src/constraints.rs that a fresh router accepts in a template. Found by asking the crate, not by assuming.
fn extra_builtins() -> Vec<(String, std::sync::Arc<Router<u8>>)> {
    static CACHE: std::sync::OnceLock<Vec<(String, std::sync::Arc<Router<u8>>)>> = std::sync::OnceLock::new();
    CACHE.get_or_init(find_extra_builtins).clone()
}

fn find_extra_builtins() -> Vec<(String, std::sync::Arc<Router<u8>>)> {
    // every source file of the crate (the table of built-ins may move in a reorganisation of the modules)
    fn walk(dir: &std::path::Path, out: &mut String) {
        if let Ok(rd) = std::fs::read_dir(dir) {
            let mut es: Vec<_> = rd.flatten().map(|e| e.path()).collect();
            es.sort();
            for p in es {
                if p.is_dir() {
                    walk(&p, out);
                } else if p.extension().map_or(false, |x| x == "rs") {
                    out.push_str(&std::fs::read_to_string(&p).unwrap_or_default());
                    out.push('\n');
                }
            }
        }
    }
    let mut src = String::new();
    walk(std::path::Path::new("/repo/src"), &mut src);
    let re = regex::Regex::new(r#"const\s+NAME\s*:\s*&'static\s+str\s*=\s*"([A-Za-z0-9_.-]+)""#).unwrap();
    let mut out = vec![];
    for c in re.captures_iter(&src) {
        let name = c[1].to_owned();
        if palette::BUILTIN_NAMES.contains(&name.as_str()) || palette::CUSTOM_KEYS.contains(&name.as_str()) || out.iter().any(|(n, _)| *n == name) {
            continue;
        }
        let probe = catch_unwind(|| {
            let mut r = Router::<u8>::new();
            r.insert(&format!("/{{*x:{name}}}"), 0).ok().map(|()| r)
        });
        if let Ok(Some(r)) = probe {
            out.push((name, std::sync::Arc::new(r)));
        }
    }
    out
}

impl Clone for R {
    fn clone(&self) -> Self {
        R { router: self.router.clone(), checks: self.checks.clone(), types: self.types.clone(), live: self.live.clone(), ever: self.ever.clone(), extra: self.extra.clone() }
    }
}

/// C18, type level: this only compiles while `Router<T>` and `Match<'_, '_, T>` are `Send + Sync` for every
/// `T: Send + Sync`.
#[cfg(feature = "sendsync")]
#[allow(dead_code)]
fn router_is_send_and_sync<T: Send + Sync + 'static>() {
    fn is_send_sync<X: Send + Sync>() {}
    is_send_sync::<Router<T>>();
    is_send_sync::<wayfind::Match<'static, 'static, T>>();
}

/// does the corresponding Rust `FromStr` accept the value? (C13, built-ins)
pub fn fromstr_ok(name: &str, v: &str) -> Option<bool> {
    use std::net::{Ipv4Addr, Ipv6Addr};
    Some(match name {
        "u8" => v.parse::<u8>().is_ok(),
        "u16" => v.parse::<u16>().is_ok(),
        "u32" => v.parse::<u32>().is_ok(),
        "u64" => v.parse::<u64>().is_ok(),
        "u128" => v.parse::<u128>().is_ok(),
        "usize" => v.parse::<usize>().is_ok(),
        "i8" => v.parse::<i8>().is_ok(),
        "i16" => v.parse::<i16>().is_ok(),
        "i32" => v.parse::<i32>().is_ok(),
        "i64" => v.parse::<i64>().is_ok(),
        "i128" => v.parse::<i128>().is_ok(),
        "isize" => v.parse::<isize>().is_ok(),
        "f32" => v.parse::<f32>().is_ok(),
        "f64" => v.parse::<f64>().is_ok(),
        "bool" => v.parse::<bool>().is_ok(),
        "ipv4" => v.parse::<Ipv4Addr>().is_ok(),
        "ipv6" => v.parse::<Ipv6Addr>().is_ok(),
        _ => return None,
    })
}

/// hand-written recogniser of the distribution-spec repository name grammar (independent of the `regex` crate):
/// path components `[a-z0-9]+((\.|_|__|-+)[a-z0-9]+)*` joined by '/'
pub fn name_ok(s: &str) -> bool {
    fn alnum(b: u8) -> bool {
        b.is_ascii_lowercase() || b.is_ascii_digit()
    }
    fn component(c: &[u8]) -> bool {
        let mut i = 0;
        let run = |i: &mut usize| {
            let st = *i;
            while *i < c.len() && alnum(c[*i]) {
                *i += 1;
            }
            *i > st
        };
        if !run(&mut i) {
            return false;
        }
        while i < c.len() {
            // separator: '.', '_', '__', or one or more '-'
            if c[i] == b'.' {
                i += 1;
            } else if c[i] == b'_' {
                i += 1;
                if i < c.len() && c[i] == b'_' {
                    i += 1;
                }
            } else if c[i] == b'-' {
                while i < c.len() && c[i] == b'-' {
                    i += 1;
                }
            } else {
                return false;
            }
            if !run(&mut i) {
                return false;
            }
        }
        true
    }
    !s.is_empty() && s.split('/').all(|c| component(c.as_bytes()))
}

thread_local! {
    static PATHBUF: std::cell::RefCell<String> = std::cell::RefCell::new(String::with_capacity(1 << 16));
}

#[derive(Default)]
pub struct Exec {
    expect: Option<String>,
    routers: HashMap<usize, R>,
    pub oracle: Vec<String>,
    pub stats: HashMap<String, u64>,
}

fn panic_msg(p: Box<dyn std::any::Any + Send>) -> String {
    let m = if let Some(s) = p.downcast_ref::<&str>() {
        (*s).to_owned()
    } else if let Some(s) = p.downcast_ref::<String>() {
        s.clone()
    } else {
        "?".to_owned()
    };
    format!("panic {}", hex(m.as_bytes()))
}

/// C19 (rendering half): the message contains every payload string verbatim.
fn contains_all(idx: usize, what: &str, rendered: &str, fields: &[&str], oracle: &mut Vec<String>) {
    for f in fields {
        if !rendered.contains(f) {
            oracle.push(format!("O {idx} C19 rendered {what} message does not contain payload string {}", hex(f.as_bytes())));
        }
    }
}

/// C14 (rendering half): `    Template: <template>` followed by the caret line.
fn check_caret(idx: usize, e: &TemplateError, rendered: &str, oracle: &mut Vec<String>) {
    use TemplateError as T;
    let (template, spans): (&str, Vec<(usize, usize)>) = match e {
        T::Empty => return,
        T::MissingLeadingSlash { template } => (template, vec![]),
        T::EmptyBraces { template, position } | T::EmptyParentheses { template, position } => (template, vec![(*position, 2)]),
        T::UnbalancedBrace { template, position } | T::UnbalancedParenthesis { template, position } => (template, vec![(*position, 1)]),
        T::EmptyParameter { template, start, length }
        | T::EmptyWildcard { template, start, length }
        | T::EmptyConstraint { template, start, length }
        | T::TouchingParameters { template, start, length }
        | T::InvalidParameter { template, start, length, .. }
        | T::InvalidConstraint { template, start, length, .. } => (template, vec![(*start, *length)]),
        T::DuplicateParameter { template, first, first_length, second, second_length, .. } => {
            (template, vec![(*first, *first_length), (*second, *second_length)])
        }
    };
    let lines: Vec<&str> = rendered.split('\n').collect();
    let want = format!("    Template: {template}");
    // the template itself may contain newlines; compare on the joined text
    let Some(pos) = rendered.find(&want) else {
        oracle.push(format!("O {idx} C14 rendering lacks the line [    Template: <template>]"));
        return;
    };
    let _ = lines;
    if spans.is_empty() {
        return;
    }
    let mut caret = vec![b' '; spans.iter().map(|(s, l)| s + l).max().unwrap_or(0)];
    for (s, l) in &spans {
        for c in caret.iter_mut().skip(*s).take(*l) {
            *c = b'^';
        }
    }
    let caret = String::from_utf8(caret).unwrap();
    let after = &rendered[pos + want.len()..];
    let expect = format!("\n              {caret}");
    let ok = after.starts_with(&expect) && {
        let rest = &after[expect.len()..];
        rest.trim_start_matches(' ').is_empty() || rest.trim_start_matches(' ').starts_with('\n')
    };
    if !ok {
        oracle.push(format!("O {idx} C14 caret line is not {} spaces/carets as stated by the payload", caret.len()));
    }
}

impl Exec {
    fn bump(&mut self, k: &str) {
        *self.stats.entry(k.to_owned()).or_insert(0) += 1;
    }

    /// returns (completed operation line, output line)
    pub fn step(&mut self, idx: usize, line: &str) -> (String, String) {
        let f: Vec<&str> = line.split(' ').collect();
        let bad = || (line.to_owned(), "bad-op".to_owned());
        let num = |s: &str| s.parse::<usize>().ok();
        if line.starts_with('#') {
            match f.as_slice() {
                ["#", "expect", rest @ ..] => self.expect = Some(rest.join(" ")),
                ["#", "nameck", h] => {
                    if let Some(Ok(n)) = unhex(h).map(String::from_utf8) {
                        use wayfind::Constraint;
                        let a = palette::oci_name::NameConstraint::check(&n);
                        let b = name_ok(&n);
                        self.bump("nameck");
                        if a != b {
                            self.oracle.push(format!("O {idx} C17 name constraint says {a}, the distribution-spec grammar says {b} for {h}"));
                        }
                    }
                }
                ["#", "http", m, h, want] => {
                    // the URL through the example itself: start_server on a loopback socket, AppRouter::handle, the real
                    // route table. "Not routed" is the router's own answer: 404 with an empty body (handlers answer with JSON).
                    if let Some(Ok(url)) = unhex(h).map(String::from_utf8) {
                        match crate::ociapp::request(m, &url) {
                            None => self.bump("http.unavailable"),
                            Some((400, _)) => self.bump("http.rejected-by-hyper"),
                            Some((status, len)) => {
                                let routed = !(status == 404 && len == 0);
                                self.bump(if routed { "http.routed" } else { "http.not-routed" });
                                if routed != (*want == "routed") {
                                    self.oracle.push(format!(
                                        "O {idx} C17 the example answers {m} {url} with status {status} and {len} body bytes: {}, expected {want}",
                                        if routed { "routed" } else { "not routed" }
                                    ));
                                }
                            }
                        }
                    }
                }
                ["#", "psearch", r, n, paths @ ..] => self.psearch(idx, r, n, paths),
                _ => {}
            }
            return (line.to_owned(), "ok".to_owned());
        }
        match f.as_slice() {
            ["nameck", h] => {
                // the OCI example's name constraint (the `regex` crate at work) on one name; also compared with the
                // hand-written recogniser of the grammar
                let Some(Ok(n)) = unhex(h).map(String::from_utf8) else { return bad() };
                use wayfind::Constraint;
                let res = catch_unwind(|| palette::oci_name::NameConstraint::check(&n));
                match res {
                    Ok(a) => {
                        let b = name_ok(&n);
                        self.bump("nameck");
                        if a != b {
                            self.oracle.push(format!("O {idx} C17 name constraint says {a}, the distribution-spec grammar says {b} for {h}"));
                        }
                        (line.to_owned(), if a { "accept" } else { "reject" }.to_owned())
                    }
                    Err(p) => (line.to_owned(), panic_msg(p)),
                }
            }
            ["reset"] => {
                self.routers.clear();
                (line.to_owned(), "ok".to_owned())
            }
            ["new", r] => {
                let Some(r) = num(r) else { return bad() };
                let res = catch_unwind(|| Router::<u32>::new());
                let b = palette::builtins();
                let mut table: Vec<String> = b.iter().map(|(n, t, _)| format!("{}:{}", hex(n.as_bytes()), hex(t.as_bytes()))).collect();
                let extra = extra_builtins();
                for (n, _) in &extra {
                    self.bump("extra-builtins");
                    table.push(format!("{}:{}", hex(n.as_bytes()), hex(b"?")));
                }
                let full = format!("new {r} {}", table.join(","));
                match res {
                    Ok(router) => {
                        self.routers.insert(r, R { router, checks: b.iter().map(|(n, _, c)| (*n, *c)).collect(), types: b.iter().map(|(n, t, _)| (*n, *t)).collect(), live: vec![], ever: vec![], extra });
                        (full, "ok".to_owned())
                    }
                    Err(p) => (full, panic_msg(p)),
                }
            }
            ["constraint", r, key] => {
                let (Some(r), true) = (num(r), palette::known_key(key)) else { return bad() };
                let Some(x) = self.routers.get_mut(&r) else { return (line.to_owned(), "bad-router".to_owned()) };
                let res = catch_unwind(AssertUnwindSafe(|| palette::register(&mut x.router, key)));
                match res {
                    Ok(Some((name, ty, check, outcome))) => {
                        let full = format!("constraint {r} {} {}", hex(name.as_bytes()), hex(ty.as_bytes()));
                        let out = match outcome {
                            Ok(()) => {
                                x.checks.push((name, check));
                                x.types.push((name, ty));
                                "ok".to_owned()
                            }
                            Err(e) => {
                                let rendered = e.to_string();
                                let ConstraintError::DuplicateName { name, existing_type, new_type } = e;
                                contains_all(idx, "DuplicateName", &rendered, &[name, existing_type, new_type], &mut self.oracle);
                                if new_type != ty {
                                    self.oracle.push(format!("O {idx} C19 DuplicateName carries the wrong new type"));
                                }
                                match x.types.iter().find(|(n, _)| *n == name) {
                                    Some((_, t)) if *t == existing_type => {}
                                    Some((_, t)) => self.oracle.push(format!(
                                        "O {idx} C19 DuplicateName names {existing_type} as the existing type of '{name}', which was registered by {t}"
                                    )),
                                    None => self.oracle.push(format!("O {idx} C13 DuplicateName for '{name}', a name that was never registered")),
                                }
                                format!("err DuplicateName {} {} {} R={}", hex(name.as_bytes()), hex(existing_type.as_bytes()), hex(new_type.as_bytes()), hex(rendered.as_bytes()))
                            }
                        };
                        (full, out)
                    }
                    Ok(None) => bad(),
                    Err(p) => (line.to_owned(), panic_msg(p)),
                }
            }
            ["insert", r, t, d] => {
                let (Some(r), Some(tb), Ok(d)) = (num(r), unhex(t), d.parse::<u32>()) else { return bad() };
                let Ok(ts) = String::from_utf8(tb) else { return bad() };
                let Some(x) = self.routers.get_mut(&r) else { return (line.to_owned(), "bad-router".to_owned()) };
                let res = catch_unwind(AssertUnwindSafe(|| x.router.insert(&ts, d)));
                let out = match res {
                    Ok(Ok(())) => {
                        x.ever.push(ts.clone());
                        x.live.push(ts);
                        "ok".to_owned()
                    }
                    Ok(Err(e)) => {
                        let rendered = catch_unwind(AssertUnwindSafe(|| e.to_string()));
                        let rendered = match rendered {
                            Ok(s) => s,
                            Err(p) => return (line.to_owned(), panic_msg(p)),
                        };
                        let core = match &e {
                            InsertError::Template(te) => {
                                check_caret(idx, te, &rendered, &mut self.oracle);
                                format!("err Template {}", show_terr(te))
                            }
                            InsertError::UnknownConstraint { constraint } => {
                                contains_all(idx, "UnknownConstraint", &rendered, &[constraint], &mut self.oracle);
                                format!("err UnknownConstraint {}", hex(constraint.as_bytes()))
                            }
                            InsertError::Conflict { template, conflicts } => {
                                let mut fs: Vec<&str> = vec![template];
                                fs.extend(conflicts.iter().map(String::as_str));
                                contains_all(idx, "Conflict", &rendered, &fs, &mut self.oracle);
                                let cs: Vec<String> = conflicts.iter().map(|c| hex(c.as_bytes())).collect();
                                format!("err Conflict {} {}", hex(template.as_bytes()), cs.join(","))
                            }
                        };
                        format!("{core} R={}", hex(rendered.as_bytes()))
                    }
                    Err(p) => panic_msg(p),
                };
                (line.to_owned(), out)
            }
            ["delete", r, t] => {
                let (Some(r), Some(tb)) = (num(r), unhex(t)) else { return bad() };
                let Ok(ts) = String::from_utf8(tb) else { return bad() };
                let Some(x) = self.routers.get_mut(&r) else { return (line.to_owned(), "bad-router".to_owned()) };
                let res = catch_unwind(AssertUnwindSafe(|| x.router.delete(&ts)));
                let out = match res {
                    Ok(Ok(d)) => {
                        x.live.retain(|l| *l != ts);
                        format!("ok {d}")
                    }
                    Ok(Err(e)) => {
                        let rendered = match catch_unwind(AssertUnwindSafe(|| e.to_string())) {
                            Ok(s) => s,
                            Err(p) => return (line.to_owned(), panic_msg(p)),
                        };
                        let core = match &e {
                            DeleteError::Template(te) => {
                                check_caret(idx, te, &rendered, &mut self.oracle);
                                format!("err Template {}", show_terr(te))
                            }
                            DeleteError::NotFound { template } => {
                                contains_all(idx, "NotFound", &rendered, &[template], &mut self.oracle);
                                format!("err NotFound {}", hex(template.as_bytes()))
                            }
                            DeleteError::Mismatch { template, inserted } => {
                                contains_all(idx, "Mismatch", &rendered, &[template, inserted], &mut self.oracle);
                                format!("err Mismatch {} {}", hex(template.as_bytes()), hex(inserted.as_bytes()))
                            }
                        };
                        format!("{core} R={}", hex(rendered.as_bytes()))
                    }
                    Err(p) => panic_msg(p),
                };
                (line.to_owned(), out)
            }
            ["search", r, p] => {
                let (Some(r), Some(pb)) = (num(r), unhex(p)) else { return bad() };
                let Ok(ps) = String::from_utf8(pb) else { return bad() };
                let Some(x) = self.routers.get(&r) else { return (line.to_owned(), "bad-router".to_owned()) };
                // constraint table: for every registered name that a live template mentions, the accepted substrings
                let mut table: Vec<String> = vec![];
                for (name, check) in &x.checks {
                    let needle = format!(":{name}}}");
                    // a group inside braces can assemble a constraint name out of pieces (`{x:u(6)4}`, `{x(:u32)}`): such
                    // templates get the table of every registered name
                    if !x.ever.iter().any(|t| t.contains(&needle) || (t.contains(':') && t.contains('('))) {
                        continue;
                    }
                    let mut acc: Vec<&str> = vec![];
                    for s in 0..ps.len() {
                        for e in s + 1..=ps.len() {
                            if let Some(v) = ps.get(s..e) {
                                if check(v) && !acc.contains(&v) {
                                    acc.push(v);
                                }
                            }
                        }
                    }
                    let vs: Vec<String> = acc.iter().map(|v| hex(v.as_bytes())).collect();
                    table.push(format!("{}={}", hex(name.as_bytes()), vs.join(",")));
                }
                for (name, probe) in &x.extra {
                    let needle = format!(":{name}}}");
                    if !x.ever.iter().any(|t| t.contains(&needle) || (t.contains(':') && t.contains('('))) {
                        continue;
                    }
                    let mut acc: Vec<&str> = vec![];
                    for s in 0..ps.len() {
                        for e in s + 1..=ps.len() {
                            if let Some(v) = ps.get(s..e) {
                                if !acc.contains(&v) && probe.search(&format!("/{v}")).is_some() {
                                    acc.push(v);
                                }
                            }
                        }
                    }
                    let vs: Vec<String> = acc.iter().map(|v| hex(v.as_bytes())).collect();
                    table.push(format!("{}={}", hex(name.as_bytes()), vs.join(",")));
                }
                let full = format!("search {r} {p} {}", if table.is_empty() { ".".to_owned() } else { table.join(";") });
                // every search of this thread reads its path from ONE buffer that never moves (capacity reserved up front):
                // consecutive searches see the same addresses with other contents — what a server does with a reused request
                // buffer, and what a memo keyed by address or offset gets wrong
                let res = catch_unwind(AssertUnwindSafe(|| {
                    PATHBUF.with(|b| {
                    let mut b = b.borrow_mut();
                    if ps.len() <= b.capacity() {
                        b.clear();
                        b.push_str(&ps);
                    } else {
                        *b = ps.clone();
                    }
                    let ps: &str = b.as_str();
                    x.router.search(ps).map(|m| {
                        let mut l = format!(
                            "match {} {} {}",
                            hex(m.template.as_bytes()),
                            m.expanded.map_or_else(|| ".".to_owned(), |e| hex(e.as_bytes())),
                            m.data
                        );
                        for (k, v) in &m.parameters {
                            let _ = write!(l, " {}={}", hex(k.as_bytes()), hex(v.as_bytes()));
                        }
                        l
                    })
                    })
                }));
                let out = match res {
                    Ok(Some(l)) => l,
                    Ok(None) => "none".to_owned(),
                    Err(p) => panic_msg(p),
                };
                if let Some(e) = self.expect.take() {
                    *self.stats.entry("expect.checked".to_owned()).or_insert(0) += 1;
                    if e.starts_with("match") {
                        *self.stats.entry("nt.expectmatch".to_owned()).or_insert(0) += 1;
                    }
                    if e != out {
                        self.oracle.push(format!("O {idx} C17 expected [{e}] got [{out}]"));
                    }
                }
                // C13: a router holding exactly "/{x:<builtin>}" accepts exactly what FromStr accepts
                if let [only] = x.live.as_slice() {
                    if let Some(name) = only.strip_prefix("/{x:").and_then(|t| t.strip_suffix('}')) {
                        if let (Some(v), false) = (ps.strip_prefix('/'), ps.len() < 2) {
                            if !v.contains('/') {
                                if let Some(want) = fromstr_ok(name, v) {
                                    *self.stats.entry("fromstr.checked".to_owned()).or_insert(0) += 1;
                                    if want {
                                        *self.stats.entry("fromstr.accepting".to_owned()).or_insert(0) += 1;
                                    }
                                    if want != out.starts_with("match") {
                                        self.oracle.push(format!("O {idx} C13 built-in '{name}': FromStr says {want} for {}, router answered [{out}]", hex(v.as_bytes())));
                                    }
                                }
                            }
                        }
                    }
                }
                (full, out)
            }
            ["display", r] => {
                let Some(r) = num(r) else { return bad() };
                let Some(x) = self.routers.get(&r) else { return (line.to_owned(), "bad-router".to_owned()) };
                let out = match catch_unwind(AssertUnwindSafe(|| x.router.to_string())) {
                    Ok(s) => format!("tree {}", hex(s.as_bytes())),
                    Err(p) => panic_msg(p),
                };
                (line.to_owned(), out)
            }
            ["dump", r] => {
                let Some(r) = num(r) else { return bad() };
                let Some(x) = self.routers.get(&r) else { return (line.to_owned(), "bad-router".to_owned()) };
                (line.to_owned(), dump_line(&x.router))
            }
            ["clone", r, r2] => {
                let (Some(r), Some(r2)) = (num(r), num(r2)) else { return bad() };
                if !self.routers.contains_key(&r) {
                    return (line.to_owned(), "bad-router".to_owned());
                }
                // onto a router that exists already: `Clone::clone_from` (a hand-written one may reuse what is there)
                if r2 != r {
                    if let Some(mut dest) = self.routers.remove(&r2) {
                        self.bump("clone_from");
                        let x = &self.routers[&r];
                        return match catch_unwind(AssertUnwindSafe(|| {
                            dest.router.clone_from(&x.router);
                            dest.checks = x.checks.clone();
                            dest.types = x.types.clone();
                            dest.live = x.live.clone();
                            dest.ever = x.ever.clone();
                            dest.extra = x.extra.clone();
                            dest
                        })) {
                            Ok(c) => {
                                self.routers.insert(r2, c);
                                (line.to_owned(), "ok".to_owned())
                            }
                            Err(p) => (line.to_owned(), panic_msg(p)),
                        };
                    }
                }
                let x = &self.routers[&r];
                match catch_unwind(AssertUnwindSafe(|| x.clone())) {
                    Ok(c) => {
                        self.routers.insert(r2, c);
                        (line.to_owned(), "ok".to_owned())
                    }
                    Err(p) => (line.to_owned(), panic_msg(p)),
                }
            }
            ["drop", r] => {
                let Some(r) = num(r) else { return bad() };
                self.routers.remove(&r);
                (line.to_owned(), "ok".to_owned())
            }
            ["parse", t] => {
                let Some(tb) = unhex(t) else { return bad() };
                (line.to_owned(), self.parse(idx, &tb))
            }
            _ => {
                self.bump("bad-op");
                bad()
            }
        }
    }

    /// C18: `n` threads search one shared router concurrently; every result must equal the sequential one
    fn psearch(&mut self, idx: usize, r: &str, n: &str, paths: &[&str]) {
        let (Ok(r), Ok(n)) = (r.parse::<usize>(), n.parse::<usize>()) else { return };
        let Some(x) = self.routers.get(&r) else { return };
        let paths: Vec<String> = paths.iter().filter_map(|h| unhex(h).and_then(|b| String::from_utf8(b).ok())).collect();
        let show = |router: &Router<u32>, p: &str| -> String {
            match router.search(p) {
                None => "none".to_owned(),
                Some(m) => format!("{} {:?} {} {:?}", m.template, m.expanded, m.data, m.parameters),
            }
        };
        let router = &x.router;
        let before = router.to_string();
        let sequential: Vec<String> = paths.iter().map(|p| show(router, p)).collect();
        let mut bad = 0usize;
        std::thread::scope(|s| {
            let handles: Vec<_> = (0..n)
                .map(|t| {
                    let paths = &paths;
                    let sequential = &sequential;
                    s.spawn(move || {
                        let mut bad = 0usize;
                        for round in 0..3 {
                            for k in 0..paths.len() {
                                let i = (k * (t + 1) + round + t) % paths.len();
                                if show(router, &paths[i]) != sequential[i] {
                                    bad += 1;
                                }
                            }
                        }
                        bad
                    })
                })
                .collect();
            for h in handles {
                bad += h.join().unwrap_or(1);
            }
        });
        let after: Vec<String> = paths.iter().map(|p| show(router, p)).collect();
        *self.stats.entry("psearch.calls".to_owned()).or_insert(0) += (n * 3 * paths.len()) as u64;
        if bad > 0 {
            self.oracle.push(format!("O {idx} C18 {bad} concurrent search result(s) differ from the sequential ones"));
        }
        if after != sequential || router.to_string() != before {
            self.oracle.push(format!("O {idx} C18 searching changed later search results or the printed tree"));
        }
    }

    #[cfg(feature = "hook")]
    fn parse(&mut self, idx: usize, t: &[u8]) -> String {
        match catch_unwind(|| wayfind::verif::parse_dump(t)) {
            Ok(Ok(ts)) => {
                let es: Vec<String> = ts
                    .iter()
                    .map(|(raw, parts)| {
                        let ps: Vec<String> = parts
                            .iter()
                            .map(|(k, a, b)| if *k == 'S' { format!("S{}", hex(a)) } else { format!("P{k}{}:{}", hex(a), hex(b)) })
                            .collect();
                        format!("{}|{}", hex(raw), ps.join(","))
                    })
                    .collect();
                format!("ok {}", es.join(";"))
            }
            Ok(Err(e)) => {
                let rendered = match catch_unwind(AssertUnwindSafe(|| e.to_string())) {
                    Ok(s) => s,
                    Err(p) => return panic_msg(p),
                };
                check_caret(idx, &e, &rendered, &mut self.oracle);
                format!("err {} R={}", show_terr(&e), hex(rendered.as_bytes()))
            }
            Err(p) => panic_msg(p),
        }
    }

    /// without the hook the parser is observed through the public API: `insert` into a router that knows nothing —
    /// a template error comes back whole (payload and rendering); anything else means the parser accepted the text,
    /// but its expansions and parts cannot be seen (`no-hook`)
    #[cfg(not(feature = "hook"))]
    fn parse(&mut self, idx: usize, t: &[u8]) -> String {
        let Ok(text) = std::str::from_utf8(t) else { return "no-hook".to_owned() };
        match catch_unwind(|| Router::<u32>::new().insert(text, 0)) {
            Ok(Err(InsertError::Template(e))) => {
                let rendered = match catch_unwind(AssertUnwindSafe(|| e.to_string())) {
                    Ok(s) => s,
                    Err(p) => return panic_msg(p),
                };
                check_caret(idx, &e, &rendered, &mut self.oracle);
                format!("err {} R={}", show_terr(&e), hex(rendered.as_bytes()))
            }
            Ok(_) => "accepted-no-hook".to_owned(),
            Err(p) => panic_msg(p),
        }
    }
}
