//! The constraint palette of the harness: custom constraints (some deliberately not prefix-closed),
//! duplicates of existing names, the 17 built-ins, and the OCI example's own name constraint.
use std::net::{Ipv4Addr, Ipv6Addr};
use wayfind::{errors::ConstraintError, Constraint, Router};

#[path = "/repo/examples/oci/src/constraints/name.rs"]
pub mod oci_name;

pub struct Alpha;
impl Constraint for Alpha {
    const NAME: &'static str = "alpha";
    fn check(s: &str) -> bool {
        s.bytes().all(|b| b.is_ascii_alphabetic())
    }
}
/// anything but "a": not prefix-closed, not suffix-closed
pub struct NotA;
impl Constraint for NotA {
    const NAME: &'static str = "nota";
    fn check(s: &str) -> bool {
        s != "a"
    }
}
/// even byte length: alternates along every capture loop
pub struct Even;
impl Constraint for Even {
    const NAME: &'static str = "even";
    fn check(s: &str) -> bool {
        s.len() % 2 == 0
    }
}
/// a second type with the name "even"
pub struct EvenDup;
impl Constraint for EvenDup {
    const NAME: &'static str = "even";
    fn check(_: &str) -> bool {
        true
    }
}
/// a user type that claims a built-in name
pub struct U8Dup;
impl Constraint for U8Dup {
    const NAME: &'static str = "u8";
    fn check(_: &str) -> bool {
        true
    }
}
/// contains a slash somewhere (only wildcards can satisfy it)
pub struct HasSlash;
impl Constraint for HasSlash {
    const NAME: &'static str = "hasslash";
    fn check(s: &str) -> bool {
        s.contains('/')
    }
}

pub type Check = fn(&str) -> bool;

/// (key used in abstract ops, NAME, type name, check)
pub fn builtins() -> Vec<(&'static str, &'static str, Check)> {
    macro_rules! b {
        ($($t:ty),*) => { vec![$((<$t as Constraint>::NAME, std::any::type_name::<$t>(), <$t as Constraint>::check as Check)),*] };
    }
    b!(u8, u16, u32, u64, u128, usize, i8, i16, i32, i64, i128, isize, f32, f64, bool, Ipv4Addr, Ipv6Addr)
}

pub const CUSTOM_KEYS: &[&str] = &["alpha", "nota", "even", "even_dup", "u8_dup", "hasslash", "name"];

pub fn register<T>(router: &mut Router<T>, key: &str) -> Option<(&'static str, &'static str, Check, Result<(), ConstraintError>)> {
    macro_rules! r {
        ($t:ty) => {
            Some((<$t as Constraint>::NAME, std::any::type_name::<$t>(), <$t as Constraint>::check as Check, router.constraint::<$t>()))
        };
    }
    match key {
        "alpha" => r!(Alpha),
        "nota" => r!(NotA),
        "even" => r!(Even),
        "even_dup" => r!(EvenDup),
        "u8_dup" => r!(U8Dup),
        "hasslash" => r!(HasSlash),
        "name" => r!(oci_name::NameConstraint),
        _ => None,
    }
}
