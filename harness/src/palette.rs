//! The constraint palette of the harness: custom constraints (some deliberately not prefix-closed),
//! duplicates of existing names, the 17 built-ins, and the OCI example's own name constraint.
use std::net::{Ipv4Addr, Ipv6Addr};
use wayfind::{errors::ConstraintError, Constraint, Router};

#[cfg(feature = "ocisrc")]
pub mod oci_name {
    // the example's own source file, located by build.rs
    include!(concat!(env!("OUT_DIR"), "/oci_name.rs"));
}
/// stand-in when the example's constraint is not where it used to be (feature `ocisrc` off): the name is then unknown to
/// the harness, the `oci` suite cannot run, and C17 says so
#[cfg(not(feature = "ocisrc"))]
pub mod oci_name {
    pub struct NameConstraint;
    impl wayfind::Constraint for NameConstraint {
        const NAME: &'static str = "name-unavailable";
        fn check(_: &str) -> bool {
            false
        }
    }
}

pub struct Alpha;
impl Constraint for Alpha {
    const NAME: &'static str = "alpha";
    fn check(s: &str) -> bool {
        s.bytes().all(|b| b.is_ascii_alphabetic())
    }
}
/// anything but "a": not prefix-closed, not suffix-closed
pub struct NotA;
impl Constraint for NotA {
    const NAME: &'static str = "nota";
    fn check(s: &str) -> bool {
        s != "a"
    }
}
/// even byte length: alternates along every capture loop
pub struct Even;
impl Constraint for Even {
    const NAME: &'static str = "even";
    fn check(s: &str) -> bool {
        s.len() % 2 == 0
    }
}
/// a second type with the name "even"
pub struct EvenDup;
impl Constraint for EvenDup {
    const NAME: &'static str = "even";
    fn check(_: &str) -> bool {
        true
    }
}
/// a user type that claims a built-in name
pub struct U8Dup;
impl Constraint for U8Dup {
    const NAME: &'static str = "u8";
    fn check(_: &str) -> bool {
        true
    }
}
/// contains a slash somewhere (only wildcards can satisfy it)
pub struct HasSlash;
impl Constraint for HasSlash {
    const NAME: &'static str = "hasslash";
    fn check(s: &str) -> bool {
        s.contains('/')
    }
}

/// user types that claim each built-in name (`dup_<name>`), via one macro
macro_rules! claim {
    ($($id:ident => $name:literal),*) => {
        $(pub struct $id;
          impl Constraint for $id {
              const NAME: &'static str = $name;
              fn check(_: &str) -> bool { true }
          })*
    };
}
claim!(DupU16 => "u16", DupU32 => "u32", DupU64 => "u64", DupU128 => "u128", DupUsize => "usize", DupI8 => "i8", DupI16 => "i16",
       DupI32 => "i32", DupI64 => "i64", DupI128 => "i128", DupIsize => "isize", DupF32 => "f32", DupF64 => "f64", DupBool => "bool",
       DupIpv4 => "ipv4", DupIpv6 => "ipv6");

pub type Check = fn(&str) -> bool;

/// (key used in abstract ops, NAME, type name, check)
pub fn builtins() -> Vec<(&'static str, &'static str, Check)> {
    macro_rules! b {
        ($($t:ty),*) => { vec![$((<$t as Constraint>::NAME, std::any::type_name::<$t>(), <$t as Constraint>::check as Check)),*] };
    }
    b!(u8, u16, u32, u64, u128, usize, i8, i16, i32, i64, i128, isize, f32, f64, bool, Ipv4Addr, Ipv6Addr)
}

pub const CUSTOM_KEYS: &[&str] = &["alpha", "nota", "even", "even_dup", "u8_dup", "hasslash", "name"];
/// `dup_<builtin>`: a user type claiming the built-in's name; `re_<builtin>`: the built-in type registered a second time
pub const BUILTIN_NAMES: &[&str] = &["u8", "u16", "u32", "u64", "u128", "usize", "i8", "i16", "i32", "i64", "i128", "isize", "f32", "f64", "bool", "ipv4", "ipv6"];
pub fn known_key(key: &str) -> bool {
    CUSTOM_KEYS.contains(&key)
        || key.strip_prefix("dup_").map_or(false, |n| BUILTIN_NAMES.contains(&n))
        || key.strip_prefix("re_").map_or(false, |n| BUILTIN_NAMES.contains(&n))
}

pub fn register<T>(router: &mut Router<T>, key: &str) -> Option<(&'static str, &'static str, Check, Result<(), ConstraintError>)> {
    macro_rules! r {
        ($t:ty) => {
            Some((<$t as Constraint>::NAME, std::any::type_name::<$t>(), <$t as Constraint>::check as Check, router.constraint::<$t>()))
        };
    }
    match key {
        "alpha" => r!(Alpha),
        "nota" => r!(NotA),
        "even" => r!(Even),
        "even_dup" => r!(EvenDup),
        "u8_dup" => r!(U8Dup),
        "hasslash" => r!(HasSlash),
        "name" => r!(oci_name::NameConstraint),
        "dup_u8" => r!(U8Dup), "dup_u16" => r!(DupU16), "dup_u32" => r!(DupU32), "dup_u64" => r!(DupU64), "dup_u128" => r!(DupU128),
        "dup_usize" => r!(DupUsize), "dup_i8" => r!(DupI8), "dup_i16" => r!(DupI16), "dup_i32" => r!(DupI32), "dup_i64" => r!(DupI64),
        "dup_i128" => r!(DupI128), "dup_isize" => r!(DupIsize), "dup_f32" => r!(DupF32), "dup_f64" => r!(DupF64), "dup_bool" => r!(DupBool),
        "dup_ipv4" => r!(DupIpv4), "dup_ipv6" => r!(DupIpv6),
        "re_u8" => r!(u8), "re_u16" => r!(u16), "re_u32" => r!(u32), "re_u64" => r!(u64), "re_u128" => r!(u128), "re_usize" => r!(usize),
        "re_i8" => r!(i8), "re_i16" => r!(i16), "re_i32" => r!(i32), "re_i64" => r!(i64), "re_i128" => r!(i128), "re_isize" => r!(isize),
        "re_f32" => r!(f32), "re_f64" => r!(f64), "re_bool" => r!(bool), "re_ipv4" => r!(Ipv4Addr), "re_ipv6" => r!(Ipv6Addr),
        _ => None,
    }
}
