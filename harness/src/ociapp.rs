//! C17 end to end: the OCI example of /repo served on a loopback socket (feature `ociapp`). A request passes through hyper,
//! `AppRouter::handle`, the example's own route table and name constraint. Without the feature, or when the socket cannot be
//! had, `request` answers `None` and the suite counts `http.unavailable` — never an alarm.

#[cfg(feature = "ociapp")]
fn addr() -> Option<std::net::SocketAddr> {
    use std::sync::OnceLock;
    static ADDR: OnceLock<Option<std::net::SocketAddr>> = OnceLock::new();
    *ADDR.get_or_init(|| {
        let (tx, rx) = std::sync::mpsc::channel();
        std::thread::spawn(move || {
            let Ok(rt) = tokio::runtime::Builder::new_multi_thread().worker_threads(2).enable_all().build() else {
                let _ = tx.send(None);
                return;
            };
            rt.block_on(async move {
                match tokio::net::TcpListener::bind("127.0.0.1:0").await {
                    Ok(l) => {
                        let _ = tx.send(l.local_addr().ok());
                        let _ = wayfind_oci_example::start_server(l).await;
                    }
                    Err(_) => {
                        let _ = tx.send(None);
                    }
                }
            });
        });
        rx.recv_timeout(std::time::Duration::from_secs(10)).ok().flatten()
    })
}

/// (status, content-length) of the example's answer; `None` when the example cannot be served or the URL cannot be sent
#[cfg(feature = "ociapp")]
pub fn request(method: &str, url: &str) -> Option<(u16, usize)> {
    use std::io::{Read, Write};
    if !url.is_ascii() || url.bytes().any(|b| b <= b' ' || b == 0x7f) {
        return None;
    }
    let a = addr()?;
    let mut s = std::net::TcpStream::connect_timeout(&a, std::time::Duration::from_secs(5)).ok()?;
    s.set_read_timeout(Some(std::time::Duration::from_secs(10))).ok()?;
    write!(s, "{method} {url} HTTP/1.1\r\nhost: localhost\r\nconnection: close\r\ncontent-length: 0\r\n\r\n").ok()?;
    let mut buf = Vec::new();
    let _ = s.read_to_end(&mut buf);
    let text = String::from_utf8_lossy(&buf);
    let (head, body) = text.split_once("\r\n\r\n").unwrap_or((&text, ""));
    let mut lines = head.split("\r\n");
    let status: u16 = lines.next()?.split(' ').nth(1)?.parse().ok()?;
    let len = lines
        .filter_map(|l| l.split_once(':'))
        .find(|(k, _)| k.eq_ignore_ascii_case("content-length"))
        .and_then(|(_, v)| v.trim().parse().ok())
        .unwrap_or(body.len());
    Some((status, len))
}

#[cfg(not(feature = "ociapp"))]
pub fn request(_method: &str, _url: &str) -> Option<(u16, usize)> {
    None
}
