//! xorshift64* — every random choice of every generator comes from one state seeded by VERIF_SEED.
pub struct Rng(pub u64);

impl Rng {
    pub fn new(seed: u64) -> Self {
        Rng(0x9E37_79B9_7F4A_7C15 ^ seed.wrapping_mul(0x2545_F491_4F6C_DD1D) | 1)
    }
    pub fn next(&mut self) -> u64 {
        self.0 ^= self.0 >> 12;
        self.0 ^= self.0 << 25;
        self.0 ^= self.0 >> 27;
        self.0.wrapping_mul(0x2545_F491_4F6C_DD1D)
    }
    /// uniform in 0..m
    pub fn below(&mut self, m: usize) -> usize {
        ((self.next() >> 11) % (m as u64)) as usize
    }
    pub fn chance(&mut self, num: usize, den: usize) -> bool {
        self.below(den) < num
    }
    pub fn pick<'a, T>(&mut self, xs: &'a [T]) -> &'a T {
        &xs[self.below(xs.len())]
    }
}

impl Rng {
    pub fn lit(&mut self, xs: &[&'static str]) -> &'static str {
        xs[self.below(xs.len())]
    }
}
