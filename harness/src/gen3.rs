//! Suites with Rust-side oracles: built-ins vs FromStr (C13), the OCI example (C17), concurrent searches (C18).
use crate::gen::{path, template, Out, KEYS};
use crate::rng::Rng;
use crate::run::{hex, name_ok};

/// C13: one router per built-in holding "/{x:NAME}"; the executor compares every answer with Rust's FromStr.
pub fn fromstr(size: usize, rng: &mut Rng, out: &mut Out) {
    let names = ["u8", "u16", "u32", "u64", "u128", "usize", "i8", "i16", "i32", "i64", "i128", "isize", "f32", "f64", "bool", "ipv4", "ipv6"];
    let mut pool: Vec<String> = vec![];
    for bits in [8u32, 16, 32, 64, 128] {
        let umax = if bits == 128 { u128::MAX } else { (1u128 << bits) - 1 };
        let imax = (1u128 << (bits - 1)) - 1;
        for v in [umax - 1, umax, imax - 1, imax, imax + 1] {
            pool.push(v.to_string());
            pool.push(format!("-{v}"));
            pool.push(format!("+{v}"));
            pool.push(format!("0{v}"));
        }
        pool.push((umax as f64 * 2.0).to_string());
        if bits < 128 {
            pool.push((umax + 1).to_string());
            pool.push(format!("-{}", imax + 2));
        }
    }
    pool.push("340282366920938463463374607431768211456".to_owned());
    pool.push("-170141183460469231731687303715884105729".to_owned());
    for s in [
        "0", "-0", "+0", "00", "1", "-1", "+1", "+", "-", " 1", "1 ", "1_000", "0x10", "1e3", "1E3", "1e-3", "1.", ".5", "1.5", "-1.5e10", "inf", "-inf", "+inf", "Inf", "INF",
        "infinity", "Infinity", "nan", "NaN", "NAN", "-nan", "1e400", "1e-400", "0.0000000000000000000000000000000000000000000001", "1.7976931348623157e308", "3.4028236e38", "1f", "1.0f32",
        "true", "false", "True", "FALSE", "t", "1", "yes", "truee", "１２", "٣", "1\u{0}", "1,0", "١", "1e", "e1", ".", "-.", "1..2", "0b1", "1u8",
        "1.2.3.4", "255.255.255.255", "256.1.1.1", "1.2.3", "1.2.3.4.5", "01.2.3.4", "1.2.3.04", "0.0.0.0", "1.2.3.4 ", "1.2.3.-4", "1.2.3.+4", "a.b.c.d", "0x1.2.3.4", "1。2。3。4", "127.1", "1.2.3.4:80",
        "::", "::1", "1::", "1::2", "1:2:3:4:5:6:7:8", "1:2:3:4:5:6:7", "1:2:3:4:5:6:7:8:9", "::ffff:1.2.3.4", "::1.2.3.4", "1:2:3:4:5:6:1.2.3.4", "fe80::1%eth0", "[::1]", "::g", "12345::", "::ffff:256.1.1.1",
        "1::2::3", ":::", ":", "0:0:0:0:0:0:0:0", "FFFF::ffff", "::1 ", "1:2:3:4:5:6:7::", "::2:3:4:5:6:7:8",
        // the longest spellings FromStr accepts (and one byte more)
        "ffff:ffff:ffff:ffff:ffff:ffff:ffff:ffff", "0000:0000:0000:0000:0000:ffff:192.168.100.100", "ffff:ffff:ffff:ffff:ffff:ffff:255.255.255.255",
        "0000:0000:0000:0000:0000:0000:0000:00000", "0000:0000:0000:0000:0000:ffff:192.168.100.1000", "00000::1", "1:2:3:4:5:6:7.8.9.10", "::ffff:0255.1.1.1",
        "255.255.255.255", "0255.255.255.255", "255.255.255.2550", "000.000.000.000", "1.1.1.1111",
    ] {
        pool.push(s.to_owned());
    }
    // long but valid spellings: FromStr accepts any number of leading zeros, long fractions and exponents
    for pad in [1usize, 2, 3, 4, 5, 6, 10, 11, 19, 20, 21, 39, 40, 41, 60] {
        let z = "0".repeat(pad);
        for v in ["7", "42", "255", "256", "127", "128", "65535", "4294967295", "18446744073709551615", "340282366920938463463374607431768211455"] {
            pool.push(format!("{z}{v}"));
            pool.push(format!("+{z}{v}"));
            pool.push(format!("-{z}{v}"));
        }
        pool.push(format!("{z}1.5"));
        pool.push(format!("1.5{z}"));
        pool.push(format!("1e{z}2"));
        pool.push(format!("{z}1.2.3.4"));
        pool.push(format!("1.2.3.{z}4"));
        pool.push(format!("{z}1::2"));
        pool.push(format!("::{z}1"));
        pool.push(format!("{}", "9".repeat(pad)));
        pool.push(format!("-{}", "9".repeat(pad)));
        pool.push(format!("{}true", " ".repeat(pad.min(2))));
    }
    for _ in 0..(200 * size) {
        let alpha = ["0", "1", "9", "-", "+", ".", "e", ":", "f", "a", "5", "2", "::"];
        let n = 1 + rng.below(12);
        pool.push((0..n).map(|_| rng.lit(&alpha)).collect());
    }
    pool.retain(|v| !v.is_empty() && !v.contains('/'));
    for (i, name) in names.iter().enumerate() {
        if !out.mine() {
            continue;
        }
        out.reset();
        out.new_router(0, KEYS);
        out.insert(0, &format!("/{{x:{name}}}"), i as u32 + 1);
        for v in &pool {
            out.search(0, &format!("/{v}"));
        }
    }
}

/// (method, template, handler) triples of the example's route table, read from its source text
pub fn oci_table() -> Vec<(String, String, String)> {
    // the table as the translator read it on this run (tools/extract.py resolves constants and tuple tables)
    let tsv = concat!(env!("CARGO_MANIFEST_DIR"), "/../lean/Wayfind/Generated/oci_routes.tsv");
    if let Ok(text) = std::fs::read_to_string(tsv) {
        let rows: Vec<(String, String, String)> = text
            .lines()
            .filter_map(|l| {
                let f: Vec<&str> = l.split('\t').collect();
                (f.len() == 3).then(|| (f[0].to_owned(), f[1].to_owned(), f[2].to_owned()))
            })
            .collect();
        if !rows.is_empty() {
            return rows;
        }
    }
    let src = std::fs::read_to_string("/repo/examples/oci/src/lib.rs").unwrap_or_default();
    let mut out = vec![];
    let mut rest = src.as_str();
    while let Some(i) = rest.find("router.route(") {
        rest = &rest[i + "router.route(".len()..];
        let Some(end) = rest.find(");") else { break };
        let call: Vec<String> = rest[..end].split(',').map(|s| s.trim().to_owned()).filter(|s| !s.is_empty()).collect();
        if call.len() >= 3 {
            let method = call[0].trim_start_matches("Method::").to_owned();
            let tpl = call[1].trim_matches('"').to_owned();
            let handler = call[2].rsplit("::").next().unwrap_or("").to_owned();
            out.push((method, tpl, handler));
        }
        rest = &rest[end..];
    }
    out
}

/// the endpoints of the property statement: (method, shape, handler of the example)
const ENDPOINTS: &[(&str, &str, &str)] = &[
    ("GET", "root", "handle_root_get"),
    ("GET", "blobs/D", "handle_blob_pull"),
    ("HEAD", "blobs/D", "handle_blob_pull"),
    ("GET", "manifests/R", "handle_manifest_pull"),
    ("HEAD", "manifests/R", "handle_manifest_pull"),
    ("POST", "blobs/uploads", "handle_blob_push_post"),
    ("PUT", "blobs/uploads/R", "handle_blob_push_put"),
    ("PUT", "manifests/R", "handle_manifest_put"),
    ("GET", "tags/list", "handle_tags_get"),
    ("DELETE", "manifests/R", "handle_manifest_delete"),
    ("DELETE", "blobs/D", "handle_blob_delete"),
];

fn last_param(tpl: &str) -> Option<String> {
    let i = tpl.rfind('{')?;
    let j = tpl[i..].find('}')? + i;
    let inner = &tpl[i + 1..j];
    if inner.starts_with('*') {
        return None;
    }
    Some(inner.split(':').next().unwrap_or("").to_owned())
}

/// which shape does the template implement?
fn shape_of(tpl: &str) -> &'static str {
    let t = tpl.trim_end_matches("(/)");
    if t == "/v2" {
        "root"
    } else if t.ends_with("/blobs/uploads") {
        "blobs/uploads"
    } else if t.contains("/blobs/uploads/{") {
        "blobs/uploads/R"
    } else if t.contains("/blobs/{") {
        "blobs/D"
    } else if t.contains("/manifests/{") {
        "manifests/R"
    } else if t.ends_with("/tags/list") {
        "tags/list"
    } else {
        "?"
    }
}

/// the unique reading of a URL under one method's table, by the shape of its last segments (independent of the router)
fn oci_expect(table: &[(usize, &(String, String, String))], url: &str) -> String {
    let u = url.strip_suffix('/').unwrap_or(url);
    if u.ends_with('/') || !u.starts_with("/v2") {
        return "none".to_owned();
    }
    let find = |shape: &str| table.iter().find(|(_, t)| shape_of(&t.1) == shape);
    if u == "/v2" {
        return match find("root") {
            Some((i, t)) => format!("match {} {} {i}", hex(t.1.as_bytes()), hex(u_for(url, &t.1).as_bytes())),
            None => "none".to_owned(),
        };
    }
    let Some(rest) = u.strip_prefix("/v2/") else { return "none".to_owned() };
    let segs: Vec<&str> = rest.split('/').collect();
    let n = segs.len();
    let mut cands: Vec<(&str, usize, Option<&str>)> = vec![]; // shape, name segments, last value
    if n >= 3 && segs[n - 2] == "blobs" {
        cands.push(("blobs/D", n - 2, Some(segs[n - 1])));
    }
    if n >= 3 && segs[n - 2] == "manifests" {
        cands.push(("manifests/R", n - 2, Some(segs[n - 1])));
    }
    if n >= 3 && segs[n - 2] == "blobs" && segs[n - 1] == "uploads" {
        cands.push(("blobs/uploads", n - 2, None));
    }
    if n >= 4 && segs[n - 3] == "blobs" && segs[n - 2] == "uploads" {
        cands.push(("blobs/uploads/R", n - 3, Some(segs[n - 1])));
    }
    if n >= 3 && segs[n - 2] == "tags" && segs[n - 1] == "list" {
        cands.push(("tags/list", n - 2, None));
    }
    let mut answers = vec![];
    for (shape, k, last) in cands {
        let name = segs[..k].join("/");
        if !name_ok(&name) || last.map_or(false, str::is_empty) {
            continue;
        }
        if let Some((i, t)) = find(shape) {
            let mut l = format!("match {} {} {i} {}={}", hex(t.1.as_bytes()), hex(u_for(url, &t.1).as_bytes()), hex(b"name"), hex(name.as_bytes()));
            if let (Some(v), Some(p)) = (last, last_param(&t.1)) {
                l.push_str(&format!(" {}={}", hex(p.as_bytes()), hex(v.as_bytes())));
            }
            answers.push(l);
        }
    }
    match answers.len() {
        0 => "none".to_owned(),
        1 => answers.remove(0),
        _ => "ambiguous".to_owned(),
    }
}

/// the expansion text that matched: the template without its optional "(/)" group, plus "/" when the URL has it
fn u_for(url: &str, tpl: &str) -> String {
    let base = tpl.trim_end_matches("(/)");
    if url.ends_with('/') && url != "/" {
        format!("{base}/")
    } else {
        base.to_owned()
    }
}

pub fn oci(max_name: usize, out: &mut Out) {
    let table = oci_table();
    let methods = ["GET", "HEAD", "POST", "PUT", "DELETE"];
    let names: Vec<String> = crate::gen::all_strings(&["a", "0", ".", "_", "-", "/", "A"], max_name).into_iter().filter(|s| !s.is_empty()).collect();
    let extra_names = ["library/ubuntu", "a/blobs/b", "blobs", "a/manifests/b/tags/list", "tags/list", "a/blobs/uploads", "x--y/z__w.v", "a/b/c/d/e/f", "v2", "a___b", "a.-b", "é", "a%2Fb"];
    let refs = ["latest", "sha256:abc", "v1.0", "uploads", "list", "é", "a.b-c_d", "1"];
    out.reset();
    for (mi, m) in methods.iter().enumerate() {
        out.op(format!("new {mi}"));
        out.op(format!("constraint {mi} name"));
        for (i, t) in table.iter().enumerate() {
            if t.0 == *m {
                out.insert(mi, &t.1, i as u32);
            }
        }
        out.display(mi);
    }
    // every endpoint of the statement must be present in the example's table under its method
    for (m, shape, handler) in ENDPOINTS {
        let ok = table.iter().any(|t| t.0 == *m && shape_of(&t.1) == *shape && t.2 == *handler);
        out.op(format!("# expect {}", if ok { "none" } else { "missing-endpoint" }));
        out.search(0, &format!("/__endpoint_table_check__/{m}/{shape}"));
    }
    let mut all_names: Vec<String> = names;
    all_names.extend(extra_names.iter().map(|s| (*s).to_owned()));
    for (k, name) in all_names.iter().enumerate() {
        if !out.mine() {
            continue;
        }
        out.op(format!("nameck {}", hex(name.as_bytes())));
        let r = refs[k % refs.len()];
        let urls = [
            format!("/v2/{name}/blobs/{r}"),
            format!("/v2/{name}/manifests/{r}"),
            format!("/v2/{name}/blobs/uploads"),
            format!("/v2/{name}/blobs/uploads/{r}"),
            format!("/v2/{name}/tags/list"),
        ];
        for (mi, m) in methods.iter().enumerate() {
            let mt: Vec<(usize, &(String, String, String))> = table.iter().enumerate().filter(|(_, t)| t.0 == *m).collect();
            for u in &urls {
                for slash in ["", "/"] {
                    let url = format!("{u}{slash}");
                    let want = oci_expect(&mt, &url);
                    out.op(format!("# expect {want}"));
                    out.search(mi, &url);
                    // a sample of the URLs also goes through the example itself (hyper, AppRouter::handle)
                    if k % 23 == 0 || k + extra_names.len() >= all_names.len() {
                        out.op(format!("# http {m} {} {}", hex(url.as_bytes()), if want == "none" { "none" } else { "routed" }));
                    }
                }
            }
        }
    }
    for (mi, m) in methods.iter().enumerate() {
        let mt: Vec<(usize, &(String, String, String))> = table.iter().enumerate().filter(|(_, t)| t.0 == *m).collect();
        for url in ["/v2", "/v2/", "/v2//", "/v1", "/v2/a", "/"] {
            out.op(format!("# expect {}", oci_expect(&mt, url)));
            out.search(mi, url);
        }
    }
}

/// C18: random routers searched by several threads at once, then observed again sequentially
pub fn threads(n: usize, rng: &mut Rng, out: &mut Out) {
    for _ in 0..n {
        out.reset();
        out.new_router(0, KEYS);
        let mut live: Vec<Vec<(char, Vec<u8>)>> = vec![];
        for d in 0..(4 + rng.below(8)) {
            let t = template(rng, false);
            out.insert(0, &t, d as u32 + 1);
            live.extend(crate::gen::parts_of(&t));
        }
        let paths: Vec<String> = (0..40).map(|_| path(rng, &live)).filter(|p| !p.is_empty()).collect();
        out.display(0);
        for p in &paths {
            out.search(0, p);
        }
        let hs: Vec<String> = paths.iter().map(|p| hex(p.as_bytes())).collect();
        out.op(format!("# psearch 0 8 {}", hs.join(" ")));
        out.display(0);
        for p in &paths {
            out.search(0, p);
        }
        // searches between updates: a wide literal fan-out is searched (sequentially and from eight threads), one of its
        // templates that is not the last sibling is deleted, and everything is searched again; a second router that is
        // built with the final set and was never searched before must answer the same (FUN: results are a function of
        // the live set, whatever was searched on the way)
        out.reset();
        out.new_router(0, KEYS);
        let words = ["alpha", "bravo", "charlie", "delta", "echo", "foxtrot", "golf", "hotel", "india"];
        let nw = 6 + rng.below(4);
        let mut wide: Vec<String> = words[..nw].iter().map(|w| format!("/{w}")).collect();
        wide.push(format!("/{}/{{id}}", words[nw - 1]));
        wide.push("/{other}".to_owned());
        for (d, t) in wide.iter().enumerate() {
            out.insert(0, t, d as u32 + 1);
        }
        let mut battery: Vec<String> = words[..nw].iter().map(|w| format!("/{w}")).collect();
        battery.push(format!("/{}/12", words[nw - 1]));
        battery.push("/zulu".to_owned());
        battery.push("/".to_owned());
        for p in &battery {
            out.search(0, p);
        }
        let hs: Vec<String> = battery.iter().map(|p| hex(p.as_bytes())).collect();
        out.op(format!("# psearch 0 8 {}", hs.join(" ")));
        let victim = rng.below(nw - 1);
        out.delete(0, &wide[victim]);
        for p in &battery {
            out.search(0, p);
        }
        out.op(format!("# psearch 0 8 {}", hs.join(" ")));
        out.display(0);
        out.new_router(1, KEYS);
        for (d, t) in wide.iter().enumerate() {
            if d != victim {
                out.insert(1, t, d as u32 + 1);
            }
        }
        for p in &battery {
            out.search(1, p);
        }
        out.display(1);
        // searches before an insert: paths that miss are searched (sequentially and from eight threads), then templates
        // that fit them are inserted — spelled with escapes, with groups, with parameters — and the same paths are searched
        // again; a router built with the final set that was never searched must answer the same (a memo of misses, an index
        // built lazily by the first search, … survive an insert they do not recognise)
        out.reset();
        out.new_router(0, KEYS);
        out.insert(0, "/static", 1);
        out.insert(0, "/users/{id}/posts", 2);
        let late = [
            "/wiki/Rust_\\(language\\)/{section}", "/users/\\{id\\}", "/a\\\\b/{x}", "/files(/{name}).txt", "/{*rest}/end", "/u\\sers/me",
            "/stat\\ic/x", "/é\\(日\\)", "(/opt)/tail",
        ];
        let probes = [
            "/wiki/Rust_(language)/intro", "/users/{id}", "/a\\b/1", "/files.txt", "/files/report.txt", "/x/y/end", "/users/me", "/static/x",
            "/é(日)", "/tail", "/opt/tail", "/nothing",
        ];
        for p in &probes {
            out.search(0, p);
        }
        let hs: Vec<String> = probes.iter().map(|p| hex(p.as_bytes())).collect();
        out.op(format!("# psearch 0 8 {}", hs.join(" ")));
        let pick = rng.below(late.len());
        for (d, t) in late.iter().enumerate() {
            if d % 3 == pick % 3 {
                continue;
            }
            out.insert(0, t, 10 + d as u32);
            for p in &probes {
                out.search(0, p);
            }
        }
        out.op(format!("# psearch 0 8 {}", hs.join(" ")));
        out.display(0);
        out.new_router(1, KEYS);
        out.insert(1, "/static", 1);
        out.insert(1, "/users/{id}/posts", 2);
        for (d, t) in late.iter().enumerate() {
            if d % 3 != pick % 3 {
                out.insert(1, t, 10 + d as u32);
            }
        }
        for p in &probes {
            out.search(1, p);
        }
        out.display(1);
    }
}

/// Registry suite (C13, C19, C07): (a) every built-in name claimed by a user type and every built-in type registered a
/// second time — the duplicate-name error must carry the name and both type names; (b) optional groups *inside* the
/// braces of a constrained parameter, so that different expansions of one template name different constraints
/// (`/{x:u(6)4}` = `/{x:u64}`, `/{x:u4}`): the unknown-constraint check has to look at every expansion, and a template
/// that gets in is searched, printed and deleted.
pub fn regs(size: usize, out: &mut Out) {
    let names = crate::palette::BUILTIN_NAMES;
    // (e) registries across `clone_from`: the target knows a name under another type, knows names the source lacks, lacks
    // names the source knows; after the copy everything about constraints must be the source's (thirteenth round, C13-g:
    // a hand-written clone_from that merges the tables)
    if out.mine() {
        for (tk, sk) in [(&["even"][..], &["even_dup", "alpha"][..]), (&["nota", "even"][..], &["alpha"][..]), (&[][..], &["even", "nota"][..]),
            (&["u8_dup", "alpha"][..], &["hasslash"][..])]
        {
            out.reset();
            out.new_router(0, tk);
            out.insert(0, "/t/{a:even}", 1);
            out.insert(0, "/t/{b:nota}", 2);
            out.new_router(1, sk);
            out.insert(1, "/s/{x:even}", 3);
            out.insert(1, "/s/{y:alpha}", 4);
            out.insert(1, "/s/{*z:hasslash}", 5);
            out.op("clone 1 0".to_owned());
            for r in 0..2 {
                out.display(r);
                for p in ["/s/a", "/s/ab", "/s/abc", "/s/1", "/s/a/b", "/t/a", "/t/ab"] {
                    out.search(r, p);
                }
                out.insert(r, "/n/{v:nota}", 6);
                out.insert(r, "/n/{w:even}", 7);
                out.insert(r, "/n/{q:alpha}", 8);
                out.insert(r, "/n/{u:u8}", 9);
                for k in ["even", "even_dup", "nota", "alpha", "u8_dup", "hasslash"] {
                    out.op(format!("constraint {r} {k}"));
                }
                for p in ["/n/a", "/n/ab", "/n/7", "/n/abc"] {
                    out.search(r, p);
                }
            }
        }
    }
    if out.mine() {
        for n in names {
            out.reset();
            out.new_router(0, KEYS);
            out.op(format!("constraint 0 dup_{n}"));
            out.op(format!("constraint 0 re_{n}"));
            out.op(format!("constraint 0 dup_{n}"));
            out.insert(0, &format!("/{{x:{n}}}"), 1);
            out.search(0, "/1");
            out.search(0, "/true");
        }
    }
    let customs = ["alpha", "nota", "even", "hasslash"];
    let vals = ["1", "12", "a", "ab", "true", "1.5", "1.2.3.4", "::1", "a/b", "300", "-1"];
    let shapes: &[(&str, &str)] = &[("/", ""), ("/s/", "/t"), ("/", ".x")];
    for c in names.iter().chain(customs.iter()) {
        let cb: Vec<char> = c.chars().collect();
        for i in 0..=cb.len() {
            for j in (i + 1)..=cb.len() {
                if j - i > 1 + size && !(i == 0 && j == cb.len()) {
                    continue;
                }
                for (si, (pre, post)) in shapes.iter().enumerate() {
                    if si > size {
                        continue;
                    }
                    if !out.mine() {
                        continue;
                    }
                    let a: String = cb[..i].iter().collect();
                    let m: String = cb[i..j].iter().collect();
                    let z: String = cb[j..].iter().collect();
                    let wild = if si == 1 { "*" } else { "" };
                    let ts = [
                        format!("{pre}{{{wild}x:{a}({m}){z}}}{post}"),
                        format!("{pre}{{{wild}x(:{c})}}{post}"),
                        format!("{pre}{{{wild}x:{a}(}}/{{y:){z}}}{post}"),
                    ];
                    for (ti, t) in ts.iter().enumerate() {
                        if ti > 0 && !(i == 0 && j == 1) {
                            continue;
                        }
                        out.reset();
                        out.new_router(0, KEYS);
                        out.op(format!("parse {}", hex(t.as_bytes())));
                        out.insert(0, t, 7);
                        out.display(0);
                        for v in vals {
                            out.search(0, &format!("{pre}{v}{post}"));
                            out.search(0, &format!("{pre}{v}/{v}{post}"));
                        }
                        out.delete(0, t);
                        out.display(0);
                    }
                }
            }
        }
    }
    // (c) groups inside parameter *names*: dropping the group can make two names equal (`/{a(b)}/{a}`), make two
    // parameters touch, empty a name, or leave an invalid one; every expansion has to pass every check
    let grouped = ["{a(b)}", "{(b)a}", "{a(b)c}", "{*a(b)}", "{a(b):alpha}", "{(a)}", "{a(*)}", "{(*)a}", "{a(:alpha)}", "{a(/)b}", "{a}(b)", "{a(})/{b}"];
    let plain = ["{a}", "{ab}", "{ac}", "{b}", "{*a}", "{a:alpha}"];
    let glue = ["/", "-", "/x/", ""];
    for g in grouped {
        for q in plain {
            for sep in glue {
                if !out.mine() {
                    continue;
                }
                for t in [format!("/{g}{sep}{q}"), format!("/{q}{sep}{g}")] {
                    out.reset();
                    out.new_router(0, KEYS);
                    out.op(format!("parse {}", hex(t.as_bytes())));
                    out.insert(0, &t, 3);
                    out.display(0);
                    for v in ["a", "ab", "b", "a/b", "a-b", "a/x/b", "abc"] {
                        out.search(0, &format!("/{v}"));
                    }
                    out.delete(0, &t);
                }
            }
        }
    }
    // (d) templates that end (or begin a segment) with white space or control bytes, named by errors through a different
    // spelling: the payload must be carried, and rendered, byte for byte
    if out.mine() {
        for end in [" ", "\t", " \t ", "\u{a0}", "\n ", "\r", "\u{b}", "\u{c}", "\u{2003}", "  "] {
            for base in ["/a", "/a/{x}/b", "/{x:alpha}/a", "/a(/b)"] {
                let live = format!("{base}{end}");
                let respelled = format!("/\\{}", &live[1..]);
                out.reset();
                out.new_router(0, KEYS);
                out.insert(0, &live, 1);
                out.insert(0, &respelled, 2);
                out.delete(0, &respelled);
                out.insert(0, &format!("/q{end}"), 3);
                out.insert(0, &format!("(/\\q{end})(/\\{})", &live[1..]), 4);
                out.search(0, &live);
                out.display(0);
                out.delete(0, &live);
                out.delete(0, &live);
            }
        }
    }
}

/// Sibling competition (C06, C03, C05, C18): two templates whose first parameter is of the same kind but differently
/// named, so that one node has two parameter children of one kind; paths that fit both. A third, unrelated template whose
/// parameter shares its segment with literal text is inserted and deleted again (it changes how the node's children are
/// searched, and must change no result it does not fit), the battery is repeated in reverse order and from several threads
/// (searching must not leave anything behind).
pub fn sibs(size: usize, out: &mut Out) {
    let kinds: &[(&str, &str, &[&str])] = &[
        ("{a}", "{b}", &["{z}.y", "{z:alpha}-y"]),
        ("{*a}", "{*b}", &["{*z}.y", "{*z:nota}~y"]),
        ("{a:alpha}", "{b:alpha}", &["{z:alpha}-y", "{z}.y"]),
        ("{*a:nota}", "{*b:nota}", &["{*z:nota}~y", "{*z}.y"]),
    ];
    let tails_all = ["/x", "/{c}", "", "/x/{c}", ".t", "/x/y"];
    let tails = &tails_all[..(3 + size).min(tails_all.len())];
    let prefixes_all = ["/", "/p/"];
    let prefixes = &prefixes_all[..size.min(2).max(1)];
    let vals = ["foo", "x", "y", "foo.t", "a"];
    for (k1, k2, flippers) in kinds {
        for t1 in tails {
            for t2 in tails {
                for pre in prefixes {
                    for f in flippers.iter() {
                        if !out.mine() {
                            continue;
                        }
                        let a = format!("{pre}{k1}{t1}");
                        let b = format!("{pre}{k2}{t2}");
                        let fl = format!("{pre}{f}");
                        let mut battery: Vec<String> = vec![];
                        for v1 in vals {
                            for tail in [t1, t2] {
                                for v2 in ["x", "foo"] {
                                    let p = format!("{pre}{v1}{}", tail.replace("{c}", v2));
                                    if !battery.contains(&p) {
                                        battery.push(p);
                                    }
                                }
                            }
                            battery.push(format!("{pre}{v1}/x/{v1}"));
                        }
                        out.reset();
                        out.new_router(0, KEYS);
                        out.insert(0, &a, 1);
                        out.insert(0, &b, 2);
                        for p in &battery {
                            out.search(0, p);
                        }
                        out.insert(0, &fl, 3);
                        for p in &battery {
                            out.search(0, p);
                        }
                        out.delete(0, &fl);
                        for p in battery.iter().rev() {
                            out.search(0, p);
                        }
                        let hs: Vec<String> = battery.iter().map(|p| hex(p.as_bytes())).collect();
                        out.op(format!("# psearch 0 4 {}", hs.join(" ")));
                        for p in &battery {
                            out.search(0, p);
                        }
                        out.display(0);
                    }
                }
            }
        }
    }
}

/// Long inputs: counts that cross 255/256 (a rank field or a counter narrowed to `u8`), hundreds of parameters, long literal
/// runs, deep and wide optional groups — each template alone in a router, printed, searched with the path it fits and near
/// misses, cloned, deleted (tenth round, C07-g: `depth` summed in a `u8`).
pub fn long(size: usize, out: &mut Out) {
    let mut ns = vec![254usize, 255, 256, 257, 300];
    if size >= 2 {
        ns.push(600);
    }
    let mut cases: Vec<(String, String)> = vec![];
    for &n in &ns {
        cases.push(("/".repeat(n), "/".repeat(n)));
        cases.push(("/a".repeat(n), "/a".repeat(n)));
        cases.push((format!("/{{p}}{}", "/".repeat(n)), format!("/v{}", "/".repeat(n))));
        cases.push((format!("/{{*w}}{}", "/x".repeat(n)), format!("/u/v{}", "/x".repeat(n))));
        cases.push((format!("/{}{{*w}}", "x/".repeat(n)), format!("/{}u/v", "x/".repeat(n))));
        cases.push(((0..n / 2).map(|i| format!("/{{p{i}}}")).collect::<String>(), "/v".repeat(n / 2)));
        cases.push((format!("/{}", "a".repeat(n)), format!("/{}", "a".repeat(n))));
        cases.push((format!("/{}{{p}}", "é".repeat(n)), format!("/{}v", "é".repeat(n))));
        cases.push((format!("/a(/{}){{*w}}", "b/".repeat(n)), format!("/a/{}v", "b/".repeat(n))));
    }
    for k in [40usize, 128, 260] {
        cases.push((format!("/x{}{}", "(/a".repeat(k), ")".repeat(k)), format!("/x{}", "/a".repeat(k))));
        cases.push((format!("/x{}{}", "(/a".repeat(k), ")".repeat(k)), format!("/x{}", "/a".repeat(k / 2))));
    }
    cases.push((format!("/x{}", "(/a)".repeat(8)), "/x/a/a/a".to_owned()));
    cases.push((format!("/x{}", (0..8).map(|i| format!("(/{i})")).collect::<String>()), "/x/1/3/7".to_owned()));
    for (t, p) in cases {
        if !out.mine() {
            continue;
        }
        out.reset();
        out.new_router(0, KEYS);
        out.insert(0, &t, 1);
        out.op(format!("parse {}", hex(t.as_bytes())));
        out.display(0);
        out.search(0, &p);
        out.search(0, &format!("{p}/"));
        out.search(0, &p[..p.len() - 1]);
        out.insert(0, "/{*rest}", 2);
        out.search(0, &p);
        out.search(0, &format!("{p}x"));
        out.op("clone 0 1".to_owned());
        out.insert(0, &t, 3);
        out.delete(0, &t);
        out.display(0);
        out.search(0, &p);
        out.search(1, &p);
        out.delete(1, &t);
        out.display(1);
        // malformed long inputs
        out.insert(0, &format!("{t}("), 4);
        out.insert(0, &format!("{t}{{"), 5);
        out.delete(0, &format!("{t})"));
    }
}
